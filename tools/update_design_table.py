#!/usr/bin/env python3
"""tools/update_design_table.py — replace the rows of the DESIGN.md 10.7 table with the output of tools/update_meta.py"""
import re, subprocess
rows = subprocess.run(['python3', '/verif/tools/update_meta.py'], capture_output=True, text=True).stdout.strip().split('\n')
p = '/verif/DESIGN.md'
s = open(p).read()
head = '| seeded change | result | what it changes | first signature reported |\n|---|---|---|---|\n'
i = s.index(head) + len(head)
j = s.index('\n\n', i)
s = s[:i] + '\n'.join(rows) + s[j:]
open(p, 'w').write(s)
st = {}
for r in rows:
    k = r.split('|')[2].strip(); st[k] = st.get(k, 0) + 1
print(len(rows), st)
