import json,sys
d=json.load(open(sys.argv[1]))
print("SIG:",d['signature']); print("WHAT:",d['what'][:500])
w=d['witness']; ctx=w.get('ctx',w)
for p in ctx.get('packages',[]):
    print("PKG",p['name'],"exports",p['exports'],"dirty",p['dirty'])
    for f in p['files']:
        print("=====",f['path']); print(f['source'])
if 'module' in w: print(">>>>> EMITTED",w['module']); print(w.get('emitted',''))
