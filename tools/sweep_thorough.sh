#!/bin/bash
# tools/sweep_thorough.sh <seed> [ids...] — run thorough checks sequentially, log timing + verdict lines
S=${1:-1}; shift
IDS=${@:-C01 C02 C03 C04 C05 C06 C07 C08 C09 C10 C11 C12 C13 C14 C15 C16 C17 C18 C19 C20}
cd /verif
for id in $IDS; do
  t0=$SECONDS
  VERIF_SEED=$S ./check $id thorough 2>/dev/null | grep -E "^\[|VIOLATION|  signature|  what|INCONCLUSIVE|HARNESS|^\[miri|^\[asan|^\[release" | cut -c1-260
  echo "== $id thorough seed=$S exit=${PIPESTATUS[0]} took $((SECONDS-t0))s"
done
