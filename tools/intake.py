#!/usr/bin/env python3
"""tools/intake.py <ID> <out-dir> <src mN> <dst mK> <round-text> — copy a sub-agent's deliverable (mN.diff, mN_demo.rs, mN.md)
into /verif/seeded/<ID>-<mK>/ and write a first meta.json (status '?', filled in later by tools/update_meta.py)."""
import json, os, re, shutil, sys
pid, out, src, dst, rnd = sys.argv[1:6]
d = '/verif/seeded/%s-%s' % (pid, dst)
os.makedirs(d, exist_ok=True)
shutil.copy(os.path.join(out, src + '.diff'), os.path.join(d, 'patch.diff'))
shutil.copy(os.path.join(out, src + '_demo.rs'), os.path.join(d, 'demo.rs'))
md = open(os.path.join(out, src + '.md')).read()
open(os.path.join(d, 'notes.md'), 'w').write(md)
m = re.search(r'(?is)\**\s*(what is needed to manifest|what.{0,20}needs? to manifest|needed to manifest|needs to manifest)\**\s*[:.\-—]?\**\s*(.+?)(\n\s*\n\s*(#|\*\*)|\n#+ |\Z)', md)
needs = re.sub(r'\s+', ' ', m.group(2)).strip()[:1200] if m else 'see notes.md'
meta = {
 'property': pid,
 'origin': 'fresh sub-agent given only the property text and a scratch worktree (%s)' % rnd,
 'needs_to_manifest': needs,
 'verified': 'tools/verify_mutant.sh %s %s in a scratch worktree under /tmp: demonstration fails with the patch, passes without it, and `cargo test --workspace --no-fail-fast --offline` passes with the patch' % (pid, dst),
 'ran': 'git -C /repo apply patch.diff; ./check %s quick; git -C /repo checkout -- .' % pid,
 'status': '?',
}
json.dump(meta, open(os.path.join(d, 'meta.json'), 'w'), indent=1)
print(d, '|', needs[:200])
