#!/bin/bash
# SWEEP_DIR=/tmp/sweepN tools/sweep_copy.sh [names...]  (several copies may run side by side on disjoint name lists)
# tools/sweep_copy.sh [names...] — run tools/sweep_mutants.sh on a scratch copy (/tmp/sweep/verif + a worktree of /repo's HEAD at
# /tmp/sweep/repo) so that the ~2 h sweep over every seeded change does not block work in /verif and /repo.
# Results: /tmp/sweep/verif/.build/mutant_sweep.jsonl (copy it to /verif/.build/ and run tools/update_meta.py).
# Remove /tmp/sweep afterwards (git -C /repo worktree remove --force /tmp/sweep/repo; rm -rf /tmp/sweep).
set -u
S=${SWEEP_DIR:-/tmp/sweep}
mkdir -p $S
rsync -a --delete --exclude .build --exclude .git --exclude replays /verif/ $S/verif/
[ -d $S/repo ] || git -C /repo worktree add --detach $S/repo HEAD >/dev/null 2>&1
git -C $S/repo checkout -q --detach "$(git -C /repo rev-parse HEAD)"
sed -i "s|path = \"/repo\"|path = \"$S/repo\"|" $S/verif/harness/Cargo.toml
# the harness pins its target dir to /verif/.build/native: the copy must build into its own
sed -i "s|target-dir = \"/verif/.build/native\"|target-dir = \"$S/verif/.build/native\"|" $S/verif/harness/.cargo/config.toml
grep -q "$S/verif/.build/native" $S/verif/harness/.cargo/config.toml || { echo "target-dir not redirected"; exit 9; }
export DGV_VERIF_DIR=$S/verif DGV_REPO_DIR=$S/repo
mkdir -p $S/verif/.build
cd $S/verif && tools/sweep_mutants.sh "$@"
