#!/usr/bin/env python3
"""tools/update_meta.py — fold the results of tools/sweep_mutants.sh (.build/mutant_sweep.jsonl; later lines win)
into seeded/<ID>-mN/meta.json (check_exit, signatures_reported, status) and print the DESIGN 10.7 table rows."""
import json, os, re, sys
S = '/verif/seeded'
sweep = {}
p = '/verif/.build/mutant_sweep.jsonl'
for l in open(p):
    l = l.strip()
    if l:
        d = json.loads(l); sweep[(d['id'], d['m'])] = d
rows = []
for name in sorted(os.listdir(S), key=lambda n: (n.split('-')[0], int(n.split('-m')[1]))):
    d = os.path.join(S, name); pid, m = name.split('-')
    mp = os.path.join(d, 'meta.json'); meta = json.load(open(mp))
    s = sweep.get((pid, m))
    if s and meta.get('status') != 'masked':
        meta['check_exit'] = s.get('exit'); meta['signatures_reported'] = s.get('signatures', [])
        meta['status'] = 'does-not-apply' if s.get('status') == 'apply-failed' else ('caught' if s.get('exit') == 1 else 'missed')
        json.dump(meta, open(mp, 'w'), indent=1)
    title = ''
    np_ = os.path.join(d, 'notes.md')
    if os.path.exists(np_):
        for line in open(np_):
            if line.startswith('#'):
                title = re.sub(r'^#+\s*', '', line).strip()
                title = re.sub(r'^(C\d\d\s+)?(Mutant|Mutation|Change|Seeded change|m)\s*\w*\s*(\(C\d\d\))?\s*[—:\-–]+\s*', '', title, flags=re.I)
                title = re.sub(r'^C\d\d[- ]m?\w*\s*[—:\-–]+\s*', '', title)
                break
    if meta.get('origin', '').startswith('revert'):
        title = title or 'revert of a fix: commit'
    sig = (meta.get('signatures_reported') or [''])[0]
    st_txt = meta.get('status', '?')
    if meta.get('run_check'):
        st_txt += ' (by ./check %s)' % meta['run_check']
    rows.append('| %s | %s | %s | `%s` |' % (name, st_txt, title.replace('|', '/')[:160], sig[:90]))
print('\n'.join(rows))
st = {}
for r in rows:
    k = r.split('|')[2].strip(); st[k] = st.get(k, 0) + 1
print(st, file=sys.stderr)
