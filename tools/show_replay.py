import json,sys
d=json.load(open(sys.argv[1]))
print("SIG:",d['signature']); print("WHAT:",d['what'][:600])
w=d['witness']; ctx=w.get('ctx',w)
world=ctx.get('world')
if world:
    print("roots:",world['roots'],"imports:",world['imports'],"resolver:",world['resolver'])
    print("build:",ctx.get('build'))
    for m in world['modules']:
        print("---",m['url'],m['media'],m['serve'],"hdr" if m['via_header'] else "", "xts=%s"%m['x_ts_types'] if m['x_ts_types'] else "", "BROKEN" if m['broken'] else "")
        if m['source'] and len(sys.argv)>2: print(m['source'])
        else:
            for it in m['items']: print("    ",it)
for k in ('module','text','roots','options','skipped'):
    if k in w: print(k,":",w[k])
