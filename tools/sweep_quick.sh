#!/bin/bash
# tools/sweep_quick.sh <seed...> — run every check's quick tier at the given seeds (binary already built)
cd /verif
for s in "$@"; do
  for id in C01 C02 C03 C04 C05 C06 C07 C08 C09 C10 C11 C12 C13 C14 C15 C16 C17 C18 C19 C20; do
    VERIF_SEED=$s ./.build/native/debug/dgv $id quick 2>/dev/null | grep -E "^\[C|^  signature|^  what|INCONCL|VIOLATION" | cut -c1-300
  done
done
