#!/bin/bash
# tools/sweep_mutants.sh — apply every seeded change (/verif/seeded/<ID>-mN/patch.diff) to /repo in turn, run its
# property's quick check, record exit code and signatures in /verif/.build/mutant_sweep.jsonl, revert.
# optional arguments: names to run (e.g. C01-m7 C03-m8); default all. Results are appended when names are given.
V=${DGV_VERIF_DIR:-/verif}; R=${DGV_REPO_DIR:-/repo}
OUT=$V/.build/mutant_sweep.jsonl
if [ $# -eq 0 ]; then : > $OUT; DIRS=($V/seeded/C*); else DIRS=(); for n in "$@"; do DIRS+=($V/seeded/$n); done; fi
cd $R && git diff --quiet || { echo "repo dirty"; exit 9; }
for dir in "${DIRS[@]}"; do
  NAME=$(basename $dir); ID=${NAME%%-*}; M=${NAME##*-}
  cd $R
  if ! git apply "$dir/patch.diff" 2>/dev/null; then
    echo "{\"id\":\"$ID\",\"m\":\"$M\",\"status\":\"apply-failed\"}" >> $OUT; continue
  fi
  LOG=$V/.build/mut_$ID$M.log
  # a seeded change may name another property's check as the one that sees it (meta.json "run_check")
  CK=$(python3 -c "import json,sys; print(json.load(open(sys.argv[1])).get('run_check') or sys.argv[2])" "$dir/meta.json" "$ID")
  (cd $V && DGV_CASE_DEADLINE=${DGV_CASE_DEADLINE:-60} ./check $CK quick > $LOG 2>&1); RC=$?
  git -C $R checkout -- .
  SIGS=$(grep -E "^  signature:" $LOG | sed 's/^  signature: //' | sort -u | head -8 | python3 -c "import sys,json; print(json.dumps([l.strip() for l in sys.stdin]))")
  echo "{\"id\":\"$ID\",\"m\":\"$M\",\"check\":\"$CK\",\"exit\":$RC,\"signatures\":$SIGS}" >> $OUT
  echo "$ID/$M exit=$RC $SIGS" | cut -c1-250
done
(cd $V/harness && cargo build --offline >/dev/null 2>&1)
