#!/bin/bash
# tools/sweep_mutants.sh — apply every seeded change (/verif/seeded/<ID>-mN/patch.diff) to /repo in turn, run its
# property's quick check, record exit code and signatures in /verif/.build/mutant_sweep.jsonl, revert.
# optional arguments: names to run (e.g. C01-m7 C03-m8); default all. Results are appended when names are given.
OUT=/verif/.build/mutant_sweep.jsonl
if [ $# -eq 0 ]; then : > $OUT; DIRS=(/verif/seeded/C*); else DIRS=(); for n in "$@"; do DIRS+=(/verif/seeded/$n); done; fi
cd /repo && git diff --quiet || { echo "repo dirty"; exit 9; }
for dir in "${DIRS[@]}"; do
  NAME=$(basename $dir); ID=${NAME%%-*}; M=${NAME##*-}
  cd /repo
  if ! git apply "$dir/patch.diff" 2>/dev/null; then
    echo "{\"id\":\"$ID\",\"m\":\"$M\",\"status\":\"apply-failed\"}" >> $OUT; continue
  fi
  LOG=/verif/.build/mut_$ID$M.log
  (cd /verif && DGV_CASE_DEADLINE=${DGV_CASE_DEADLINE:-60} ./check $ID quick > $LOG 2>&1); RC=$?
  git -C /repo checkout -- .
  SIGS=$(grep -E "^  signature:" $LOG | sed 's/^  signature: //' | sort -u | head -8 | python3 -c "import sys,json; print(json.dumps([l.strip() for l in sys.stdin]))")
  echo "{\"id\":\"$ID\",\"m\":\"$M\",\"exit\":$RC,\"signatures\":$SIGS}" >> $OUT
  echo "$ID/$M exit=$RC $SIGS" | cut -c1-250
done
(cd /verif/harness && cargo build --offline >/dev/null 2>&1)
