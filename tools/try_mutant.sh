#!/bin/bash
# tools/try_mutant.sh <patch.diff> <ID> [tier]  — apply to /repo, run check, revert.
set -u
P="$1"; ID="$2"; TIER="${3:-quick}"
cd /repo || exit 9
if ! git diff --quiet; then echo "repo dirty"; exit 9; fi
if ! git apply "$P"; then echo "APPLY-FAILED $P"; exit 8; fi
cd /verif && ./check "$ID" "$TIER" 2>&1 | grep -E "^\[|VIOLATION|signature|KNOWN|INCONCLUSIVE|HARNESS" | cut -c1-220 | head -12
RC=${PIPESTATUS[0]}
git -C /repo checkout -- . 
(cd /verif/harness && cargo build --offline >/dev/null 2>&1)
echo "=> exit $RC ($P on $ID $TIER)"
