#!/usr/bin/env python3
"""tools/build_seeded.py — (one-off, kept for the record; the staging directory it read has been removed) turn /verif/seeded_staging/<ID>/mN.{diff,md},mN_demo.rs plus the sweep results
(/verif/.build/mutant_sweep.jsonl, written by tools/sweep_mutants.sh) into /verif/seeded/<ID>-mN/
{patch.diff, demo.rs, notes.md, meta.json}."""
import json, os, re, shutil, sys

STAGE = '/verif/seeded_staging'
OUT = '/verif/seeded'
sweep = {}
p = '/verif/.build/mutant_sweep.jsonl'
if os.path.exists(p):
    for l in open(p):
        l = l.strip()
        if l:
            d = json.loads(l)
            sweep[(d['id'], d['m'])] = d

# mutants that no longer change behaviour because a later fix: commit covers the same path
MASKED = {
    ('C02', 'm2'): "masked by fix 575038d (walk errors no longer skip a Missing entry without an in-place report): with that fix the mutated branch is never the one that decides; the demonstration passes with the mutant applied",
}
# notes on seeded changes the quick tier does not catch
NOTES = {
    ('C19', 'm5'): "not caught. The change only shows in a follow-up build (graph already has roots, so no cache-busting restart) that meets stale package metadata with two requirements on one package in one pass. The C19 monitor's registry slice keeps stale metadata out on purpose: an at-once build restarts and reloads every package while a follow-up build refreshes one package in place, so with stale metadata the two histories differ legitimately (first-come version unification) and the oracle `incremental == at-once` is not sound there. Catching this needs a model of the no-restart refresh path; recorded as a gap.",
}
ORIGIN = {
    'm3': "revert of a fix: commit of this repository (see notes.md)",
}

def needs(md):
    m = re.search(r'(?is)\**\s*(what is needed to manifest|what.{0,20}needs? to manifest|needed to manifest|needs to manifest|what it takes[^:.\n]*|what is needed[^:.\n]*|trigger)\**\s*[:.\-—]?\**\s*(.+?)(\n\s*\n|\n\*\*|\n- \*\*|\Z)', md)
    if m:
        return re.sub(r'\s+', ' ', m.group(2)).strip()[:900]
    # fall back to the first paragraph after the title
    paras = [p for p in re.split(r'\n\s*\n', md) if p.strip() and not p.lstrip().startswith('#')]
    return re.sub(r'\s+', ' ', paras[0]).strip()[:600] if paras else 'see notes.md'

os.makedirs(OUT, exist_ok=True)
index = []
for pid in sorted(os.listdir(STAGE)):
    d = os.path.join(STAGE, pid)
    if not os.path.isdir(d):
        continue
    for f in sorted(os.listdir(d)):
        if not f.endswith('.diff'):
            continue
        m = f[:-5]
        dst = os.path.join(OUT, '%s-%s' % (pid, m))
        os.makedirs(dst, exist_ok=True)
        shutil.copy(os.path.join(d, f), os.path.join(dst, 'patch.diff'))
        demo = os.path.join(d, m + '_demo.rs')
        if os.path.exists(demo):
            shutil.copy(demo, os.path.join(dst, 'demo.rs'))
        mdp = os.path.join(d, m + '.md')
        md = open(mdp).read() if os.path.exists(mdp) else ''
        if md:
            open(os.path.join(dst, 'notes.md'), 'w').write(md)
        s = sweep.get((pid, m))
        masked = MASKED.get((pid, m))
        meta = {
            'property': pid,
            'origin': 'revert of one of this repository\'s fix: commits (the defect the monitors found first)' if not os.path.exists(demo) else 'fresh sub-agent given only the property text and a scratch worktree',
            'needs_to_manifest': needs(md) if md else 'see patch.diff',
            'verified': 'tools/verify_mutant.sh %s %s in a scratch worktree under /tmp: demonstration fails with the patch, passes without it, and `cargo test --workspace --no-fail-fast --offline` passes with the patch' % (pid, m) if os.path.exists(demo) else 'the reverted commit\'s own witness (known_findings.json, status fixed)',
            'ran': 'git -C /repo apply patch.diff; ./check %s quick; git -C /repo checkout -- .' % pid,
        }
        if masked:
            meta['status'] = 'masked'
            meta['note'] = masked
        if (pid, m) in NOTES:
            meta['note'] = NOTES[(pid, m)]
        if s:
            meta['check_exit'] = s.get('exit')
            meta['signatures_reported'] = s.get('signatures', [])
            if s.get('status') == 'apply-failed':
                meta['status'] = 'does-not-apply'
            elif not masked:
                meta['status'] = 'caught' if s.get('exit') == 1 else 'missed'
        json.dump(meta, open(os.path.join(dst, 'meta.json'), 'w'), indent=1)
        index.append((pid, m, meta.get('status', '?'), meta.get('signatures_reported', [])))

for pid, m, st, sigs in index:
    print('%s-%s %-8s %s' % (pid, m, st, '; '.join(sigs)[:160]))
