#!/bin/bash
# tools/verify_mutant.sh <ID> <mN>   — confirm a seeded change (/verif/seeded/<ID>-<mN>) in a scratch worktree /tmp/mut/verify
# (create it first: git -C /repo worktree add --detach /tmp/mut/verify HEAD; remove it afterwards)
# (1) demo fails with the mutant (2) full suite passes with the mutant (3) demo passes without it
set -u
ID="$1"; M="$2"; S=/verif/seeded/$ID-$M; W=${W:-/tmp/mut/verify}
cd $W || exit 9
git checkout -q -- . ; git clean -fdq tests/ 2>/dev/null
git apply "$S/patch.diff" || { echo "$ID/$M APPLY-FAILED"; exit 8; }
cp "$S/demo.rs" tests/demo_${M}.rs
if grep -q "mod helpers" tests/demo_${M}.rs; then :; fi
cargo test --offline --test demo_${M} >/tmp/mut/verify_$ID$M.demo_mut.log 2>&1; DM=$?
rm tests/demo_${M}.rs
cargo test --workspace --no-fail-fast --offline >/tmp/mut/verify_$ID$M.suite.log 2>&1; SU=$?
git checkout -q -- .
cp "$S/demo.rs" tests/demo_${M}.rs
cargo test --offline --test demo_${M} >/tmp/mut/verify_$ID$M.demo_clean.log 2>&1; DC=$?
rm tests/demo_${M}.rs
echo "$ID/$M demo_with_mutant=$DM (want !=0) suite_with_mutant=$SU (want 0) demo_clean=$DC (want 0)"
