#!/bin/bash
# tools/rebase_mutant.sh <ID> <mN> <BASE>  — re-express a staged mutant diff against /repo's main HEAD
set -u
ID="$1"; M="$2"; BASE="$3"; S=/verif/seeded_staging/$ID; W=/tmp/mut/verify
cd $W || exit 9
git checkout -q -- . ; git clean -fdq tests/ 2>/dev/null
git checkout -q --detach "$BASE" || exit 9
git apply "$S/$M.diff" || { echo "$ID/$M APPLY-ON-BASE-FAILED"; git checkout -q --detach main; exit 8; }
git -c user.name=x -c user.email=x@x commit -qam "mutant $ID $M" 
C=$(git rev-parse HEAD)
git checkout -q --detach main
if git -c user.name=x -c user.email=x@x cherry-pick -n "$C" >/dev/null 2>&1; then
  git diff -U8 HEAD > "$S/$M.rebased.diff"
  git reset -q --hard HEAD
  echo "$ID/$M rebased ok ($(wc -l < $S/$M.rebased.diff) lines)"
else
  git cherry-pick --abort 2>/dev/null; git reset -q --hard HEAD
  echo "$ID/$M CONFLICT"
fi
