#!/usr/bin/env python3
# Regenerates MANIFEST.json from the table below (single source of truth).
import json
CHECKS = {
 "C08": dict(cat="exploration", technique="runtime monitor: generator-known-answer over dependency syntax with hostile trivia; independent position mapping; includes() probing; corpus slice oracle",
   text="Programs are assembled from 22 dependency-bearing construct kinds, pragmas and hostile trivia (non-ASCII, astral, combining, CRLF, escapes); the generator records the exact token it wrote for every specifier. The real analyser's output must be in bijection with them in source order, every range must slice (through an independent line/scalar-column mapping) to exactly that token, the text must equal the unescaped value, and Dependency::includes is probed at every position of every range. 25 000 programs / 2M position probes quick; plus every JS/TS source embedded in tests/specs.",
   note="no BOM at analyser level (the graph strips it while decoding; deno_ast rejects it); pragmas are placed on their own line", ref="§6 C08"),
 "C09": dict(cat="exploration", technique="runtime monitor: re-parse of every emitted fast-check module (scope analysis, cross-module export closure over emitted counterparts, VLQ source-map decoder) on generated packages and the fast-check spec corpus",
   text="Packages are rendered from a declaration graph (15 declaration kinds, default exports, 1-5 files, named / namespace / type-only / default imports, inline import types, imports through one or two `export *` hops, `typeof ns`, named / star / namespace re-exports, 1-2 entrypoints), served as JSR packages and run through the real build + build_fast_check_type_graph; plus every package of tests/specs/graph/fast_check. Every emitted module must parse; a name the original binds at module level and the output leaves unbound is dangling; every named import / re-export must name an export of the target's emitted counterpart; relative specifiers must resolve in the graph; the source map is decoded (VLQ) and every identifier-starting segment must map to the same identifier.",
   note="module-level scope is computed by the monitor itself (swc's resolver leaves references before an `export default interface` unresolved); ambient-class private members naming dropped classes are a known finding pinned by a golden spec", ref="§7 C09"),
 "C10": dict(cat="exploration", technique="runtime monitor: erasure-grammar checker over the re-parsed fast-check output + dirty-package oracle (one spoiled public declaration must give a located diagnostic and no output)",
   text="Same generated packages and corpus as C09. Clean packages: the grammar of DESIGN Appendix B is checked on every emitted module (bodies empty or a placeholder return, placeholder super calls, no statements, literal-like initialisers only, every parameter typed or with a literal-like default, explicit return types, TS-private members reduced to declare-any, ES-private members and decorators gone). A quarter of the packages have one public declaration spoiled in one of 15 ways (missing return types, untyped / destructured / rest parameters incl. body-less overload and abstract signatures, untyped properties, calls and `new` nested in otherwise leavable arrays, objects, template slots and conditionals): no module of the package may have output and a diagnostic must lie inside the spoiled declaration (span from an independent parse).",
   note="ambient-class TS-private methods keep their signatures: known finding pinned by a golden spec", ref="§7 C10, Appendix B"),
 "C11": dict(cat="exploration", technique="runtime monitor: generator-known-answer (intended export sets and public reachability) + relational AST comparison of every signature slot between source and emitted module",
   text="Same generated packages and corpus as C09. Entrypoints: the emitted export names (star re-exports expanded over emitted modules) equal the generator's intended set; every emitted module exports a subset of its original; kinds are kept; every declaration the generator's reachability model marks public is declared in the output and every other one is not; every signature slot (parameter, return, property, type-parameter list, extends / implements, interface body, alias body, enum member names; overload-indexed, namespaces recursed) present in both is compared by span-insensitive AST equality, with only the documented `T | undefined` normalisation for defaulted parameters allowed.",
   note="overload implementation signatures are not public and are skipped", ref="§7 C11"),
 "C12": dict(cat="exploration", technique="runtime monitor: histories over a shared recording FastCheckCache compared step by step with cache-less runs; all-or-nothing structural check per package; dependency re-scan of emitted text; fresh-thread determinism repeat",
   text="Worlds of 1-3 generated packages with cross-package links and a main module; histories of 2-5 edits of the package model (implementation-only, signature, spoil / un-spoil, export toggles, link add / remove / privatise, which entrypoints main imports). After every step the real build + build_fast_check_type_graph runs without cache, with a RecordingCache shared by the history (cold / warm / stale entries classified from its get/set log; one history in six starts poisoned), again on the warm cache, and cache-less in a fresh thread. Per analysed package: output for some module implies no diagnostics and output for every public-API file of the generator's model; no output implies diagnostics on every entrypoint in use; recorded dependencies equal the specifiers the emitted text declares; with and without cache the modules with output, their text, source maps and dependency JSON are identical; the repeat is identical.",
   note="entrypoints are the exports the graph uses (packages.package_exports); diagnostic texts are not compared across cache modes; failure-entry dependency staleness is a known finding", ref="§7 C12"),
 "C13": dict(cat="exploration", technique="runtime monitor: serde round trip over generated and hand-built module infos; v1 upgrade known-answer; relational check embedded-vs-parsed registry builds",
   text="(a) from_value(to_value(info)) == info with stable JSON for the ModuleInfo of every generated program and for hand-built values covering every field/variant; (b) generated moduleGraph1 entries through JsrPackageVersionInfo::module_info must keep every @deno-types (text and range); (c) each generated registry world is built from parsed sources and from module info embedded as moduleGraph2/moduleGraph1 (computed by this analyser), with registry files cached and uncached: serialised graphs identical.",
   note="embedded info is produced by the same analyser from the served sources (the statement's proviso)", ref="§4 C13"),
 "C05": dict(cat="exploration", technique="runtime monitor: checksum protocol automaton over the loader/locker event log + end-state check with a verifying loader and tampered bytes",
   text="Every call the real build makes to a verifying scripted loader and to a recording locker is logged; a checker written from the statement (known(u) from the harness's own lockfile and manifests) enforces presentation on every content-bearing call (K1), admission (K2: served bytes hash to the known checksum; a resource tampered on every path never becomes a module), retry discipline (K3), checksummed-redirect rejection (K4), faithful recording exactly once (K5) and no overwrite (K6) across 19 load paths x lockfile states x tampering x BOMs x cached/uncached registry files x prefer_cached.",
   note="prefer_cached existence probes are exempt from K1 (content discarded); non-UTF-8 recording is a known finding", ref="§3 C05, Appendix C"),
 "C04": dict(cat="exploration", technique="runtime monitor: deterministic scheduler over the loader's futures and executor tasks (FIFO/LIFO/random/DFS enumeration) + hasher variation in fresh threads, canonical outcome equality",
   text="The real build runs under a hand-written single-threaded scheduler that gates every loader future (released one at a time, optionally after extra Pending polls) and treats tasks handed to the Executor as separate units; release orders are enumerated depth-first per world up to a budget (247 of 400 worlds exhaustively in quick) and sampled randomly; the same world is also rebuilt in fresh OS threads (fresh hasher keys). Every execution must equal the reference (default executor under tokio) in serialised graph, error entries with referrers, package tables, lockfile writes.",
   note="in-process variation only; loader answers fixed at call time", ref="§3 C04"),
 "C03": dict(cat="fault_enumeration", technique="runtime monitor: exhaustive single-fault enumeration over the recorded load trace + random combinations, differential against the fault-free run",
   text="For every generated module world and registry world the fault-free load trace is recorded, then one real build is run per (load call x fault kind): 16 loader response kinds and 21 package-metadata / version-manifest corruptions, plus random 2-3 fault combinations and npm resolver failures (per requirement, dependency graph). Oracles: no panic, serialisable with no pending entry, every requested specifier settled, imported failures carry a referrer, entries not depending on a faulted call unchanged, npm failures observable. ~20 000 faulted builds quick.",
   note="debug-assertion panic for a module answered with a final specifier inside the registry is a known finding; release-profile behaviour is exercised by the thorough tier", ref="§3 C03"),
 "C06": dict(cat="exploration", technique="runtime monitor: selection function vs four-tier reference model (exhaustive block + random), registry-world builds vs request-replay model",
   text="resolve_version is called directly and compared with a model of the four-tier rule over an exhaustive block (7^4 registry configurations x 14 requirements x all already-selected and cached subsets x cutoff x 4 exclusion modes = 44M cases; quick takes a seeded 1/37 stride) and a random block on an 8-version universe; at graph level thousands of generated registry worlds (several requirements per package arriving in different orders, lockfile-seeded selections, yanked fallbacks, cutoff dates, cache-busting restarts, prefer_cached mode, tags, unknown packages) are built for real and mappings(), redirects, error kinds and used_yanked_packages() compared with a model that replays requests in FIFO order.",
   note="deno_semver's matching is trusted (used by the model)", ref="§4 C06"),
 "C07": dict(cat="exploration", technique="runtime monitor: registry-world builds vs bookkeeping model; URL<->nv round-trip and attribution traps",
   text="Generated registries (prefix-trap names, prerelease versions, exports as string/object/non-string/absent, packages importing one another by jsr:, npm:, https registry URLs, statically and dynamically, with and without an npm resolver) are built for real; redirects, unknown-export errors (listing every key), package_exports() and packages_with_deps() are compared with a bookkeeping model; package_url/package_url_to_nv round-trip and never-attribute-to-another-package traps over generated names, versions and registry bases (ports, schemes, host suffixes).",
   note="expected selections come from the C06 model", ref="§4 C07"),
 "C19": dict(cat="exploration", technique="runtime monitor: histories of build()/reload() on one graph vs from-scratch builds",
   text="(1) every order-preserving partition of a generated world's roots into 2-3 successive build() calls vs the single-call build, then build() again with known roots (graph unchanged, zero loader calls); (2) histories of 1-4 edit+reload steps compared with a from-scratch build of the edited sources (entries identical, redirects present, stale entries untouched).",
   note="errors compared by class and message; a referrer must not be lost (known finding); edits touch JS/TS modules", ref="§3 C19"),
 "C01": dict(cat="exploration", technique="runtime monitor: real builds vs generator ground truth through an executable closure model + model-free self-closure invariant",
   text="Worlds are rendered from abstract import lists (13 import forms, pragmas, headers, 9 media types, redirects, failures, resolver, configured imports), so the truth about what each module declares does not come from a parser. Every real build (3 kinds x options) is compared field by field with the closure model (entries and classes, redirects, per-dependency code/type target, attribute, static-vs-dynamic, types dependency) and checked by a model-free closure invariant. 12 000 builds quick, 600 000 thorough.",
   note="model tier excludes jsr/npm/node/data schemes and asset/source-phase imports; generator enforces the same-type-attribute proviso and rejects worlds whose JSON/unknown entries are reachable in both lenient and strict contexts (order-dependent by design)", ref="§3 C01, Appendix A"),
 "C17": dict(cat="exploration", technique="runtime monitor: relational check prune_types(All build) vs CodeOnly build",
   text="Each generated world is built twice by the real builder (All then prune_types, sometimes after a fast-check pass; and CodeOnly) and the two graphs are compared: entries with class and message, redirects, code edges with dynamic flags, valid() verdict, no leftover type data, graph_kind().",
   note="default build options (C17 quantifies over inputs); error entries compared by class and message, not referrer", ref="§5 C17"),
 "C18": dict(cat="exploration", technique="runtime monitor: segment() vs original graph and vs direct build",
   text="For graphs from generated worlds (3 kinds, with and without fast-check modules) and random segment roots among the modules: every dependency of every contained module must settle to the same module-or-error as in the original, resolve_dependency/try_get/validate must agree, and for non-root segment roots the contained specifier set must equal a direct real build's.",
   note="configured type imports are dropped from CodeOnly worlds (the builder loads them but no walk of a code-only graph visits them; scoping decision in DESIGN)", ref="§5 C18"),
 "C02": dict(cat="exploration", technique="runtime monitor: validate()/errors()/valid() vs independent reachability evaluator; exhaustive failure placement + random worlds",
   text="The real validate()/errors()/valid() run on graphs built by the real builder and are compared with an evaluator that reads only public graph data: verdict equivalence both ways, reported error in the reachable-failure set, referrer among followed edges. Exhaustive failure placement (7 edge kinds^2 x 9 failure kinds x 0-3 redirect hops x 3 build kinds x 36 option sets x 2 root sets) plus seeded random worlds.",
   note="evaluator written from the statement; resolution errors on type edges count only for type-checked modules", ref="§3 C02"),
 "C15": dict(cat="exploration", technique="runtime monitor: real walk iterator vs independent reachability evaluator (two formulations)",
   text="The real walk iterator is driven (with random skip_previous_dependencies) on graphs from generated worlds, with and without fast-check modules, and its yielded sequence is compared with the evaluator's reachable set (set equality, no duplicates) under random root subsets and all option combinations; errors() compared with the evaluator's failure set.",
   note="evaluator reads only public data; worklist formulation cross-checked against a naive fixpoint on every unskipped walk", ref="§5 C15"),
 "C20": dict(cat="exploration", technique="runtime monitor: enumeration against own WHATWG decoders; Miri on the Arc<str>/Arc<[u8]> reinterpretation (thorough)",
   text="Every byte string up to length 2 (quick) / 3 (thorough) over an 18-byte alphabet x 5 BOM prefixes x 13 charset labels x file/https x 4 media kinds goes through a real build; stored text, try_get_original_bytes(), refcounts and sizes are compared with the harness's own UTF-8/UTF-16/windows-1252 decoders. Thorough additionally runs a slice under Miri (UB / leak detection for the unsafe transmute pair).",
   note="charset selection rule is deno_media_type's documented contract; parsing disabled via the public ModuleAnalyzer trait", ref="§6 C20"),
 "C14": dict(cat="exploration", technique="runtime monitor: lookups vs walk on enumerated redirect graphs",
   text="Every lookup API is compared, on the real graph built by the real builder, with what a single-root walk reaches, for every root / dependency target / redirect source of ~2 600 enumerated redirect shapes (chain length 0-14 x terminal kind incl. cycles x loader limit x entry form x graph kind) plus seeded random lockfile-redirect shapes. Held-on-observed only.",
   note="trusts ModuleGraph::walk as the reference (C15 checks the walk itself); structural classes 'cycle' and 'slot-shadowed' are known findings", ref="§5 C14"),
}
ALL = ["C%02d" % i for i in range(1, 21)]
m = {
 "version": 1,
 "setup_cmd": "cd /verif/harness && CARGO_NET_OFFLINE=true cargo build --offline",
 "hooks": {
   "guard": "deno_graph_verif",
   "enable": "none needed: every observation point is public API; the cfg name is reserved (RUSTFLAGS='--cfg deno_graph_verif') and no source commit uses it",
   "baseline_off_cmd": "cd /repo && cargo test --workspace --no-fail-fast --offline",
   "source_commits": [],
   "add_only": True,
 },
 "engines": [
   {"name": "dgv", "path": "/verif/harness", "serves_properties": sorted(CHECKS), "kind_free_text": "Rust harness with a path dependency on /repo: world generator + scriptable loader, deterministic future scheduler, reference models, re-parse monitors; run natively and under Miri/ASan"},
 ],
 "checks": [],
 "not_applicable": [],
 "notes": "See DESIGN.md. Exit codes: 0 held on what was observed, 1 VIOLATION, 2 inconclusive (coverage floor / watchdog), 3 harness build failure. known_findings.json lists genuine defects recorded rather than repaired.",
}
for pid in ALL:
  if pid in CHECKS:
    c = CHECKS[pid]
    m["checks"].append({
      "property_id": pid,
      "quick_cmd": "./check %s quick" % pid,
      "thorough_cmd": "./check %s thorough" % pid,
      "evidence_file": "/verif/evidence/%s.json" % pid,
      "replay_cmd_template": "./check %s replay {path}" % pid,
      "engine": "dgv",
      "level_claimed": {"category": c["cat"], "text": c["text"], "design_ref": c["ref"]},
      "level_note": c["note"],
      "technique": c["technique"],
    })
  else:
    m["not_applicable"].append({"property_id": pid, "reason": "monitor not built yet in this round (planned in DESIGN.md); not claimed"})
json.dump(m, open("/verif/MANIFEST.json", "w"), indent=1)
print("checks:", len(m["checks"]), "n/a:", len(m["not_applicable"]))
