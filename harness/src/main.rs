mod common;
mod sched;
mod world;
mod c01;
mod c03;
mod c04;
mod c05;
mod c06;
mod c08;
mod c12;
mod c13;
mod reg;
mod c14;
mod c15;
mod c16;
mod c17;
mod c19;
mod c20;
mod eval;
mod fc;
mod fcmon;
mod fcprops;
mod pkg;
mod r#gen;
mod walkmon;

use common::*;

fn main() {
  install_panic_hook();
  let args: Vec<String> = std::env::args().collect();
  if args.len() < 3 {
    eprintln!("usage: dgv <ID> quick|thorough");
    std::process::exit(64);
  }
  if args[1] == "fccustom" {
    // dgv fccustom <case.json>: {"files": {"/mod.ts": "..."}, "exports": {".": "./mod.ts"}}
    let v: serde_json::Value = serde_json::from_str(&std::fs::read_to_string(&args[2]).expect("case file")).expect("json");
    let files: Vec<(String, String)> = v["files"].as_object().unwrap().iter().map(|(k, v)| (k.clone(), v.as_str().unwrap().to_string())).collect();
    let exports: Vec<(String, String)> = v["exports"].as_object().unwrap().iter().map(|(k, v)| (k.clone(), v.as_str().unwrap().to_string())).collect();
    let f: Vec<(&str, &str)> = files.iter().map(|(a, b)| (a.as_str(), b.as_str())).collect();
    let e: Vec<(&str, &str)> = exports.iter().map(|(a, b)| (a.as_str(), b.as_str())).collect();
    fc::debug_custom(&f, &e);
    return;
  }
  if args[1] == "fcdbg" {
    fc::debug_print(args[2].parse().unwrap_or(1), args.len() > 3);
    return;
  }
  if args[1] == "dbg" {
    reg::debug_case();
    return;
  }
  let id = args[1].as_str();
  let tier = match args[2].as_str() {
    "quick" => Tier::Quick,
    "thorough" => Tier::Thorough,
    _ => {
      eprintln!("bad tier");
      std::process::exit(64);
    }
  };
  let seed: u64 = std::env::var("VERIF_SEED")
    .ok()
    .and_then(|s| s.parse::<i64>().ok())
    .map(|v| v as u64)
    .unwrap_or(1);
  let code = match id {
    "C01" => c01::run(tier, seed),
    "C02" => c15::run_c02(tier, seed),
    "C03" => c03::run(tier, seed),
    "C04" => c04::run(tier, seed),
    "C05" => c05::run(tier, seed),
    "C06" => c06::run(tier, seed),
    "C07" => reg::run_c07(tier, seed),
    "C08" => c08::run(tier, seed),
    "C09" => fcprops::run("C09", tier, seed),
    "C10" => fcprops::run("C10", tier, seed),
    "C11" => fcprops::run("C11", tier, seed),
    "C12" => c12::run(tier, seed),
    "C16" => c16::run(tier, seed, args.iter().any(|a| a == "--sanitizer-slice")),
    "C13" => c13::run(tier, seed),
    "C14" => c14::run(tier, seed),
    "C15" => c15::run_c15(tier, seed),
    "C17" => c17::run_c17(tier, seed),
    "C18" => c17::run_c18(tier, seed),
    "C19" => c19::run(tier, seed),
    "C20" => c20::run(tier, seed, args.iter().any(|a| a == "--miri")),
    _ => {
      eprintln!("unknown property {}", id);
      64
    }
  };
  std::process::exit(code);
}
