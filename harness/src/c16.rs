// C16: symbol tables are well-formed trees, export resolution follows the ES
// star-export model, go-to-definition terminates.
//
// Workload: generated multi-module programs (every declaration kind,
// declaration merging, overloads, namespaces, class static / instance
// members, expando properties, import / export aliases, star and namespace
// re-exports with cycles, alias cycles, unresolvable targets), the package
// generator's programs, and the symbol / fast-check spec corpus. The monitor
// walks the live structures returned by the real RootSymbol.
use crate::common::*;
use crate::fcmon::*;
use crate::world::*;
use deno_graph::GraphKind;
use deno_graph::ModuleGraph;
use deno_graph::ast::CapturingModuleAnalyzer;
use deno_graph::source::Loader;
use deno_graph::symbols::DefinitionKind;
use deno_graph::symbols::DefinitionOrUnresolved;
use deno_graph::symbols::ModuleInfoRef;
use deno_graph::symbols::RootSymbol;
use deno_graph::symbols::SymbolId;
use serde_json::Value;
use serde_json::json;
use std::collections::BTreeMap;
use std::collections::BTreeSet;
use std::collections::HashSet;

// ------------------------------------------------------------ generator

pub struct SymProgram {
  pub files: Vec<(String, String)>,
}

impl SymProgram {
  pub fn world(&self) -> World {
    let mut w = World::new();
    for (p, s) in &self.files {
      w.add_text(p, s);
    }
    w
  }
  pub fn json(&self) -> Value {
    json!(self.files.iter().map(|(p, s)| json!({"path": p, "source": s})).collect::<Vec<_>>())
  }
}

pub fn gen_program(rng: &mut Rng, small: bool) -> SymProgram {
  let n = if small { rng.range(1, 3) } else { rng.range(2, 6) };
  let path = |i: usize| format!("file:///m{}.ts", i);
  let rel = |i: usize| format!("./m{}.ts", i);
  // names each module exports by declaration, fixed up front so that other
  // modules can import them
  let mut exported: Vec<Vec<String>> = vec![vec![]; n];
  let mut files = vec![];
  let mut bodies: Vec<String> = vec![String::new(); n];
  for i in 0..n {
    let mut s = String::new();
    let n_items = if small { rng.range(1, 4) } else { rng.range(2, 9) };
    for k in 0..n_items {
      let nm = format!("a{}x{}", i, k);
      let ex = if rng.chance(2, 3) { "export " } else { "" };
      let exported_here = !ex.is_empty();
      match rng.below(17) {
        0 => {
          s.push_str(&format!("{}function {}(): void {{}}\n", ex, nm));
        }
        1 => {
          // overloads
          s.push_str(&format!(
            "{ex}function {nm}(a: string): string;\n{ex}function {nm}(a: number): number;\n{ex}function {nm}(a: any): any {{ return a; }}\n"
          ));
        }
        2 => {
          // expando properties
          s.push_str(&format!(
            "{ex}function {nm}(): void {{}}\n{nm}.prop = 1;\n{nm}.other = \"x\";\n{nm}.nested = {{ deep: true }};\n"
          ));
        }
        3 => {
          s.push_str(&format!(
            "{ex}class {nm} {{\n  static s: number = 1;\n  static sm(): void {{}}\n  p: string = \"\";\n  #priv = 1;\n  private tsPriv = 2;\n  constructor(public q: number, readonly r?: string) {{}}\n  m(): void {{}}\n  m2(a: string): void;\n  m2(a: number): void;\n  m2(a: any): void {{}}\n  get g(): number {{ return 1; }}\n  set g(v: number) {{}}\n  static {{ }}\n  [Symbol.iterator](): void {{}}\n  static [Symbol.hasInstance](x: unknown): boolean {{ return true; }}\n  static readonly [Symbol.species] = 1;\n  static [\"lit\" + 1]: number = 3;\n  \"quoted\": number = 1;\n  123: number = 2;\n}}\n"
          ));
        }
        4 => {
          // interface merging
          s.push_str(&format!(
            "{ex}interface {nm} {{\n  a: string;\n  m(): void;\n}}\n{ex}interface {nm} {{\n  b: number;\n  m(x: number): void;\n  new (x: number): {nm};\n  (y: string): void;\n  [k: string]: unknown;\n}}\n"
          ));
        }
        5 => {
          // namespace with nested members, merged with a function
          s.push_str(&format!(
            "{ex}function {nm}(): void {{}}\n{ex}namespace {nm} {{\n  export const x = 1;\n  export function g(): void {{}}\n  export namespace Deep {{\n    export type T = string;\n    export namespace Deeper {{ export interface I {{ z: number }} }}\n  }}\n  const hidden = 1;\n  export class K {{ static t = 1; u = 2; }}\n}}\n"
          ));
        }
        6 => {
          // enum merged with namespace
          s.push_str(&format!(
            "{ex}enum {nm} {{ A, B = 2, C = \"c\" }}\n{ex}namespace {nm} {{\n  export const extra = 1;\n}}\n"
          ));
        }
        7 => {
          // type / value collision
          s.push_str(&format!("{ex}type {nm} = string | number;\n{ex}const {nm} = 1;\n"));
        }
        8 => {
          // class merged with interface
          s.push_str(&format!("{ex}class {nm} {{ c: number = 1; }}\n{ex}interface {nm} {{ i: string; }}\n"));
        }
        9 => {
          // several declarators and destructuring
          s.push_str(&format!(
            "{ex}const {nm} = 1, {nm}b = 2;\n{ex}const {{ {nm}c, y: [{nm}d] }} = {{ {nm}c: 1, y: [2] }};\n"
          ));
          if exported_here {
            exported[i].push(format!("{}b", nm));
            exported[i].push(format!("{}c", nm));
            exported[i].push(format!("{}d", nm));
          }
        }
        10 => {
          s.push_str(&format!("{ex}const {nm} = (a: number): number => a;\n"));
        }
        11 => {
          s.push_str(&format!("{ex}abstract class {nm} {{\n  abstract todo(): void;\n  protected pm(): void {{}}\n}}\n"));
        }
        12 => {
          s.push_str(&format!("{ex}declare function {nm}(a: string): void;\n"));
        }
        13 => {
          s.push_str(&format!("{ex}let {nm}: number | undefined;\n"));
        }
        14 => {
          s.push_str(&format!("{ex}type {nm}<T = string> = {{ [K in keyof T]: T[K] }};\n"));
        }
        15 => {
          // dotted namespaces (three levels and more)
          s.push_str(&format!(
            "{ex}namespace {nm}.Mid.Low {{\n  export const z = 1;\n  export interface I {{ w: number }}\n  export namespace Lower.Lowest {{ export type T = number; }}\n}}\n"
          ));
        }
        _ => {
          s.push_str(&format!("{ex}const enum {nm} {{ X = 1 }}\n"));
        }
      }
      if exported_here {
        exported[i].push(nm);
      }
    }
    bodies[i] = s;
  }
  let mut back_stars: Vec<(usize, usize)> = vec![];
  for i in 0..n {
    let mut s = String::new();
    // imports (aliases, namespaces, defaults, type-only, import equals)
    let n_imports = rng.below(if small { 2 } else { 4 });
    for k in 0..n_imports {
      let t = rng.below(n);
      let cands = &exported[t];
      match rng.below(7) {
        0 if !cands.is_empty() && t != i => {
          let c = rng.pick(cands);
          s.push_str(&format!("import {{ {} as imp{}x{} }} from \"{}\";\n", c, i, k, rel(t)));
          if rng.coin() {
            s.push_str(&format!("export {{ imp{}x{} as re{}x{} }};\n", i, k, i, k));
          }
        }
        1 => {
          s.push_str(&format!("import * as ns{}x{} from \"{}\";\n", i, k, rel(t)));
          match rng.below(3) {
            0 => s.push_str(&format!("export {{ ns{}x{} }};\n", i, k)),
            1 if !cands.is_empty() => {
              // a member of the namespace: one of the target's own exports, or a name some other module
              // exports (it reaches the target through `export *` chains, or not at all)
              let any: Vec<&String> = exported.iter().flatten().collect();
              let name = if rng.coin() { rng.pick(cands).clone() } else { (*rng.pick(&any)).clone() };
              s.push_str(&format!("export import eq{}x{} = ns{}x{}.{};\n", i, k, i, k, name))
            }
            _ => {}
          }
        }
        2 => {
          s.push_str(&format!("import def{}x{} from \"{}\";\n", i, k, rel(t)));
          if rng.coin() {
            s.push_str(&format!("export {{ def{}x{} }};\n", i, k));
          }
        }
        3 if !cands.is_empty() && t != i => {
          let c = rng.pick(cands);
          s.push_str(&format!("import type {{ {} as ty{}x{} }} from \"{}\";\n", c, i, k, rel(t)));
          s.push_str(&format!("export type Use{}x{} = ty{}x{};\n", i, k, i, k));
        }
        4 => {
          // named re-exports, possibly of names that do not exist
          let c = if !cands.is_empty() && rng.chance(3, 4) { rng.pick(cands).clone() } else { "doesNotExist".to_string() };
          s.push_str(&format!("export {{ {} as rx{}x{} }} from \"{}\";\n", c, i, k, rel(t)));
        }
        5 => {
          s.push_str(&format!("export {{ default as dflt{}x{} }} from \"{}\";\n", i, k, rel(t)));
        }
        _ => {
          s.push_str(&format!("export * as star{}x{} from \"{}\";\n", i, k, rel(t)));
        }
      }
    }
    s.push_str(&bodies[i]);
    // star re-exports: arbitrary targets, self and missing ones included
    let n_stars = rng.below(if small { 2 } else { 4 });
    for _ in 0..n_stars {
      match rng.below(10) {
        0 => s.push_str("export * from \"./missing.ts\";\n"),
        1 => s.push_str(&format!("export * from \"{}\";\n", rel(i))),
        _ => s.push_str(&format!("export * from \"{}\";\n", rel(rng.below(n)))),
      }
    }
    // a named re-export (same name) through a module that star re-exports
    // this one back: `export { cyc } from "./t"` + t: `export * from "./this"`
    if n > 1 && rng.chance(1, 4) {
      let t = (i + 1 + rng.below(n - 1)) % n;
      s.push_str(&format!("export {{ cyc{} }} from \"{}\";\n", i, rel(t)));
      back_stars.push((t, i));
    }
    // alias chains that may loop: export { x as y } from another module's alias
    if rng.chance(1, 3) {
      let t = rng.below(n);
      s.push_str(&format!("export {{ loop{} as loop{} }} from \"{}\";\n", t, i, rel(t)));
    }
    // default export
    match rng.below(8) {
      0 => s.push_str("export default class {}\n"),
      1 => s.push_str(&format!("export default function dfn{}(): void {{}}\n", i)),
      2 => s.push_str("export default 1 + 2;\n"),
      3 => s.push_str(&format!("export default interface DI{} {{ d: number }}\n", i)),
      4 if !exported[i].is_empty() => s.push_str(&format!("export default {};\n", exported[i][0])),
      5 if !exported[i].is_empty() => s.push_str(&format!("export {{ {} as default }};\n", exported[i][0])),
      _ => {}
    }
    if rng.chance(1, 8) {
      s.push_str("declare global {\n  interface Window { added: number }\n}\n");
    }
    if rng.chance(1, 8) {
      s.push_str("declare module \"ambient-mod\" {\n  export const amb: number;\n}\n");
    }
    files.push((path(i), s));
  }
  for (t, i) in back_stars {
    files[t].1.push_str(&format!("export * from \"{}\";\n", rel(i)));
  }
  if !small && rng.chance(1, 4) {
    files.push(("file:///data.json".to_string(), "{\"a\": 1}".to_string()));
    files[0].1.push_str("import data from \"./data.json\" with { type: \"json\" };\nexport { data };\n");
  }
  SymProgram { files }
}

// ------------------------------------------------------------ monitor

pub fn build_graph(world: &World, roots: Vec<String>, analyzer: &CapturingModuleAnalyzer) -> Result<ModuleGraph, PanicInfo> {
  let loader = ScriptedLoader::new(world);
  let mut graph = ModuleGraph::new(GraphKind::All);
  catch(|| {
    crate::sched::block_on(graph.build(
      roots.iter().map(|r| url(r)).collect(),
      vec![],
      &loader as &dyn Loader,
      deno_graph::BuildOptions {
        module_analyzer: analyzer,
        executor: &crate::sched::InlineExecutor,
        ..Default::default()
      },
    ));
  })?;
  Ok(graph)
}

/// own export names of a module, by the monitor's own scan of its source
fn own_exports(g: &ModuleGraph, spec: &deno_graph::ModuleSpecifier) -> Option<(BTreeSet<String>, Vec<String>, bool)> {
  let m = g.get(spec)?;
  if m.json().is_some() {
    return Some((["default".to_string()].into_iter().collect(), vec![], true));
  }
  let js = m.js()?;
  let p = parse_ts(&js.specifier, &js.source.text, js.media_type, false).ok()?;
  let is_module = matches!(p.program_ref(), deno_ast::ProgramRef::Module(_));
  let t = module_top(&p);
  let mut exports = t.exports.clone();
  if t.other_statements.iter().any(|s| s == "export=ident") {
    // `export = name` is treated as the module's default export (not ES
    // syntax; other `export =` forms have no symbol)
    exports.insert("default".to_string());
  }
  Some((exports, t.star_reexports.clone(), is_module))
}

/// ES star-export model: own names, plus the non-default own names of every
/// module reachable through `export *` chains
fn model_exports(g: &ModuleGraph, spec: &deno_graph::ModuleSpecifier) -> Option<(BTreeSet<String>, BTreeSet<(String, String)>)> {
  let (own, _, _) = own_exports(g, spec)?;
  let mut out = own;
  let mut unresolved: BTreeSet<(String, String)> = BTreeSet::new();
  let mut seen: BTreeSet<String> = BTreeSet::new();
  seen.insert(spec.to_string());
  let mut work = vec![spec.clone()];
  while let Some(m) = work.pop() {
    let Some((_, stars, _)) = own_exports(g, &m) else { continue };
    for s in stars {
      let target = g.resolve_dependency(&s, &m, true).cloned();
      let target_ok = target.as_ref().filter(|t| g.get(t).is_some_and(|x| x.js().is_some() || x.json().is_some()));
      match target_ok {
        None => {
          unresolved.insert((m.to_string(), s.clone()));
        }
        Some(t) => {
          if seen.insert(t.to_string()) {
            if let Some((names, _, _)) = own_exports(g, t) {
              out.extend(names.into_iter().filter(|n| n != "default"));
            }
            work.push(t.clone());
          }
        }
      }
    }
  }
  Some((out, unresolved))
}

pub fn check_graph(acc: &mut Acc, g: &ModuleGraph, analyzer: &CapturingModuleAnalyzer, ctx: &Value, small: bool) {
  let root = RootSymbol::new(g, analyzer);
  let mut specs: Vec<deno_graph::ModuleSpecifier> = g.specifiers().map(|(s, _)| s.clone()).collect();
  specs.sort();
  // module_from_specifier follows redirects and types dependencies: analyse
  // each module once, under its own specifier
  let mut done: BTreeSet<String> = BTreeSet::new();
  // keep references alive across further lazy analyses, as the API allows
  let mut held: Vec<(ModuleInfoRef, &deno_graph::symbols::Symbol)> = vec![];
  for spec in &specs {
    let Some(module) = root.module_from_specifier(spec) else { continue };
    let spec = module.specifier();
    if !done.insert(spec.to_string()) {
      continue;
    }
    acc.count("modules_analysed");
    let text = module.text();
    let start = module.text_info().range().start;
    let w = |d: Value| json!({"ctx": ctx, "module": spec.as_str(), "detail": d});
    // ---- tree shape
    let mut n_symbols = 0u64;
    let ids: HashSet<SymbolId> = module.symbols().map(|s| s.symbol_id()).collect();
    let root_sym = module.module_symbol();
    if root_sym.parent_id().is_some() {
      acc.violation("tree/module-symbol-has-parent", spec.to_string(), w(json!({})));
    }
    for symbol in module.symbols() {
      n_symbols += 1;
      if held.len() < 64 {
        held.push((module, symbol));
      }
      let sid = symbol.symbol_id();
      if symbol.parent_id().is_none() && sid != root_sym.symbol_id() {
        acc.violation("tree/second-root", format!("{}: {:?} has no parent", spec, sid), w(json!({})));
      }
      // ids exist
      for id in symbol.child_ids().chain(symbol.members().iter().copied()).chain(symbol.exports().values().copied()) {
        if !ids.contains(&id) {
          acc.violation("tree/dangling-id", format!("{}: {:?} refers to missing {:?}", spec, sid, id), w(json!({})));
        }
      }
      // a symbol that merges an import with a local declaration of the same
      // name (an erroneous program; one corpus input does it)
      let mixed = symbol.decls().iter().any(|d| d.kind.is_definition()) && symbol.decls().iter().any(|d| !d.kind.is_definition());
      let sfx = if mixed { "/symbol-mixing-import-and-definition" } else { "" };
      // whoever lists a symbol is its parent
      for id in symbol.child_ids().chain(symbol.members().iter().copied()) {
        if let Some(c) = module.symbol(id)
          && c.parent_id() != Some(sid)
        {
          acc.violation(
            "tree/listed-symbol-has-another-parent",
            format!("{}: {:?} lists {:?} whose parent is {:?}", spec, sid, id, c.parent_id()),
            w(json!({})),
          );
        }
      }
      // declarations
      let name = symbol.maybe_name();
      for decl in symbol.decls() {
        acc.count("declarations_checked");
        if decl.maybe_name() != name {
          acc.violation(
            format!("decl/name-differs-from-symbol{}", sfx),
            format!("{}: symbol {:?} is {:?}, a declaration is {:?}", spec, sid, name, decl.maybe_name()),
            w(json!({})),
          );
        }
        let r = decl.range.as_byte_range(start);
        if r.start > r.end || r.end > text.len() || !text.is_char_boundary(r.start) || !text.is_char_boundary(r.end) {
          acc.violation(
            "decl/range-outside-module-text",
            format!("{}: {:?} has range {:?}, text length {}", spec, sid, r, text.len()),
            w(json!({})),
          );
        }
      }
      // parent link (the repository's own invariant: definition symbols are
      // reachable from their parent exactly once, alias symbols are not
      // children at all)
      if let Some(pid) = symbol.parent_id() {
        let Some(parent) = module.symbol(pid) else {
          acc.violation("tree/dangling-parent", format!("{}: {:?}", spec, sid), w(json!({})));
          continue;
        };
        let as_child = parent.child_ids().filter(|id| *id == sid).count();
        let as_member = parent.members().iter().filter(|id| **id == sid).count();
        let is_definition = symbol.decls().iter().all(|d| d.kind.is_definition());
        if is_definition {
          acc.count("definition_symbols_checked");
          if as_child + as_member == 0 {
            acc.violation("tree/not-reachable-from-parent", format!("{}: {:?} {:?}", spec, sid, name), w(json!({})));
          }
        } else {
          acc.count("alias_symbols_checked");
          if as_child + as_member > 0 {
            acc.violation(format!("tree/alias-symbol-listed-by-parent{}", sfx), format!("{}: {:?} {:?}", spec, sid, name), w(json!({})));
          }
        }
        if as_child > 0 && as_member > 0 {
          acc.violation("tree/child-and-member", format!("{}: {:?} {:?}", spec, sid, name), w(json!({})));
        }
        if as_child > 1 || as_member > 1 {
          acc.violation("tree/listed-twice", format!("{}: {:?} {:?}", spec, sid, name), w(json!({})));
        }
      }
      // the root is reachable by parent links
      let mut cur = symbol;
      let mut steps = 0;
      while let Some(pid) = cur.parent_id() {
        match module.symbol(pid) {
          Some(p) => cur = p,
          None => break,
        }
        steps += 1;
        if steps > n_symbols.max(100_000) as usize {
          acc.violation("tree/parent-cycle", format!("{}: {:?}", spec, sid), w(json!({})));
          break;
        }
      }
    }
    acc.count_n("symbols_checked", n_symbols);
    acc.max("max:symbols_in_a_module", n_symbols);
    // single path from the root
    let mut visited: HashSet<SymbolId> = HashSet::new();
    let mut stack = vec![root_sym.symbol_id()];
    while let Some(id) = stack.pop() {
      if !visited.insert(id) {
        acc.violation("tree/multiple-paths", format!("{}: {:?}", spec, id), w(json!({})));
        continue;
      }
      if let Some(s) = module.symbol(id) {
        stack.extend(s.child_ids());
        stack.extend(s.members().iter().copied());
      }
    }
    // ---- exports
    if let Some((own, _, is_module)) = own_exports(g, spec)
      && is_module
      && let Some((expected, expected_unresolved)) = model_exports(g, spec)
    {
      let exports = module.exports(&root);
      let got: BTreeSet<String> = exports.resolved.keys().cloned().collect();
      acc.count("export_sets_compared");
      acc.count_n("export_names_compared", expected.len() as u64);
      if got != expected {
        let missing: Vec<_> = expected.difference(&got).cloned().collect();
        let extra: Vec<_> = got.difference(&expected).cloned().collect();
        let sig = if extra.iter().any(|n| n == "default") {
          "exports/default-through-star"
        } else if !missing.is_empty() && missing.iter().all(|n| !own.contains(n)) {
          "exports/star-name-missing"
        } else if !missing.is_empty() {
          "exports/own-name-missing"
        } else {
          "exports/extra-name"
        };
        acc.violation(sig, format!("{}: missing {:?}, extra {:?}", spec, missing, extra), w(json!({"expected": expected, "got": got})));
      }
      for (name, item) in &exports.resolved {
        // own names take precedence
        let first_is_own = matches!(item, deno_graph::symbols::ResolvedExportOrReExportAllPath::Export(_));
        if own.contains(name) != first_is_own {
          acc.violation(
            "exports/own-name-does-not-take-precedence",
            format!("{}: `{}` own={} resolved-directly={}", spec, name, own.contains(name), first_is_own),
            w(json!({})),
          );
        }
        // lands in a module that declares the name
        let re = item.as_resolved_export();
        let landed = re.module.specifier();
        match own_exports(g, landed) {
          Some((names, _, true)) => {
            if !names.contains(name) {
              acc.violation(
                "exports/resolved-into-module-that-does-not-export-the-name",
                format!("{}: `{}` -> {}", spec, name, landed),
                w(json!({})),
              );
            }
          }
          _ => {}
        }
        if re.module.symbol(re.symbol_id).is_none() {
          acc.violation("exports/resolved-symbol-missing", format!("{}: `{}`", spec, name), w(json!({})));
        }
      }
      let got_unresolved: BTreeSet<(String, String)> =
        exports.unresolved_specifiers.iter().map(|u| (u.referrer.specifier().to_string(), u.specifier.to_string())).collect();
      if got_unresolved != expected_unresolved {
        acc.violation(
          "exports/unresolved-specifiers-differ",
          format!("{}: expected {:?}, got {:?}", spec, expected_unresolved, got_unresolved),
          w(json!({})),
        );
      }
      if !expected_unresolved.is_empty() {
        acc.count("modules_with_unresolved_star_targets");
      }
    } else {
      acc.count("export_sets_skipped_not_an_es_module");
    }
    // ---- go-to-definition from every symbol
    for symbol in module.symbols() {
      let mut n = 0u64;
      for d in root.go_to_definitions_or_unresolveds(module, symbol) {
        n += 1;
        if n > 100_000 {
          acc.violation("goto/more-than-100000-results", format!("{}: {:?}", spec, symbol.symbol_id()), w(json!({})));
          break;
        }
        match d {
          DefinitionOrUnresolved::Definition(def) => {
            acc.count("goto_definitions");
            let ok = match def.kind {
              DefinitionKind::Definition => def.symbol_decl.kind.is_definition(),
              DefinitionKind::ExportStar(_) => true,
            };
            if !ok {
              acc.violation(
                "goto/result-is-not-a-definition",
                format!("{}: from {:?} reached {:?} in {}", spec, symbol.symbol_id(), def.symbol.symbol_id(), def.module.specifier()),
                w(json!({})),
              );
            }
            if matches!(def.kind, DefinitionKind::ExportStar(_)) {
              acc.count("goto_export_star_markers");
            }
            // the definition names a symbol of the module it points into, and one of that symbol's declarations
            let owned = def.module.symbol(def.symbol.symbol_id()).is_some_and(|s| std::ptr::eq(s, def.symbol));
            if !owned {
              acc.violation(
                "goto/definition-module-does-not-own-the-symbol",
                format!("{}: from {:?} reached symbol {:?} paired with module {}", spec, symbol.symbol_id(), def.symbol.symbol_id(), def.module.specifier()),
                w(json!({})),
              );
            } else if !def.symbol.decls().iter().any(|d| std::ptr::eq(d, def.symbol_decl)) {
              acc.violation(
                "goto/definition-declaration-not-of-the-symbol",
                format!("{}: from {:?} reached {:?} in {}", spec, symbol.symbol_id(), def.symbol.symbol_id(), def.module.specifier()),
                w(json!({})),
              );
            } else {
              acc.count("goto_definitions_owned_by_their_module");
            }
            let r = def.byte_range();
            let t = def.module.text();
            if r.end > t.len() || !t.is_char_boundary(r.start) || !t.is_char_boundary(r.end) {
              acc.violation("goto/definition-range-outside-text", format!("{}: {:?}", spec, r), w(json!({})));
            }
          }
          DefinitionOrUnresolved::Unresolved(_) => acc.count("goto_unresolved_markers"),
        }
      }
    }
  }
  // the held references are still valid after every module was analysed
  let mut sum = 0usize;
  for (m, s) in &held {
    sum += s.decls().len() + m.text().len() + s.maybe_name().map(|n| n.len()).unwrap_or(0);
  }
  acc.count_n("held_reference_reads", held.len() as u64);
  std::hint::black_box(sum);
  let _ = small;
}

fn gen_case(i: usize, seed: u64, acc: &mut Acc, small: bool) {
  let mut rng = Rng::new(seed).fork(i as u64 ^ 0xC16);
  let (world, roots, ctx, cyclic): (World, Vec<String>, Value, bool) = if i % 4 == 3 && !small {
    // the package generator's programs, as a local program
    let p = crate::pkg::gen_pkg(&mut rng, "@s/pkg", 4, false);
    let pkgs = vec![p];
    let w = crate::fc::build_pkgs_world(&pkgs);
    (w, vec!["file:///main.ts".into()], json!({"packages": pkgs.iter().map(crate::pkg::pkg_json).collect::<Vec<_>>()}), false)
  } else {
    let p = gen_program(&mut rng, small);
    let roots: Vec<String> = p.files.iter().filter(|(p, _)| p.ends_with(".ts")).map(|(p, _)| p.clone()).collect();
    let cyclic = p.files.iter().any(|(_, s)| s.contains("export * from"));
    (p.world(), roots, json!({"program": p.json()}), cyclic)
  };
  acc.eval();
  let analyzer = CapturingModuleAnalyzer::default();
  let g = match build_graph(&world, roots, &analyzer) {
    Ok(g) => g,
    Err(p) => {
      acc.violation(format!("panic/build/{}", p.signature()), p.message, ctx);
      return;
    }
  };
  let syntax_errors = g.module_errors().filter(|e| e.to_string().contains("SyntaxError") || e.to_string().contains("Expected")).count();
  if syntax_errors > 0 {
    acc.count("generator_program_with_syntax_errors");
    acc.set_add("syntax_error_examples", g.module_errors().next().unwrap().to_string_with_range().lines().take(6).collect::<Vec<_>>().join(" | "));
  }
  let r = catch(|| {
    let mut a = Acc::new();
    check_graph(&mut a, &g, &analyzer, &ctx, small);
    a
  });
  match r {
    Ok(a) => {
      if cyclic {
        acc.nontrivial(hash64(&ctx.to_string()));
      }
      acc.merge(a);
    }
    Err(p) => acc.violation(format!("panic/{}", p.signature()), p.message, ctx.clone()),
  }
  if i < 2 {
    acc.sample(json!({"world": ctx}));
  }
}

fn corpus(acc: &mut Acc) {
  // symbol spec inputs and fast-check spec packages
  let dir = std::path::Path::new("/repo/tests/specs/symbols");
  let mut names: Vec<_> = std::fs::read_dir(dir).map(|d| d.filter_map(|e| e.ok()).map(|e| e.path()).collect()).unwrap_or_default();
  names.sort();
  for path in names {
    let Ok(text) = std::fs::read_to_string(&path) else { continue };
    // "# <specifier>" sections up to "# output"
    let mut w = World::new();
    let mut cur: Option<String> = None;
    let mut buf = String::new();
    let mut roots = vec![];
    for line in text.lines() {
      if let Some(h) = line.strip_prefix("# ") {
        if let Some(c) = cur.take() {
          w.add_text(&c, &buf);
        }
        buf.clear();
        if h.trim() == "output" {
          break;
        }
        let h = h.trim();
        let u = if h.contains("://") { h.to_string() } else { format!("file:///{}", h) };
        if u.starts_with("file:///mod.") {
          roots.push(u.clone());
        }
        cur = Some(u);
      } else if cur.is_some() {
        buf.push_str(line);
        buf.push('\n');
      }
    }
    if roots.is_empty() {
      continue;
    }
    acc.eval();
    let analyzer = CapturingModuleAnalyzer::default();
    let ctx = json!({"spec": path.file_name().unwrap().to_string_lossy()});
    match build_graph(&w, roots, &analyzer) {
      Ok(g) => {
        acc.count("corpus_symbol_specs_run");
        match catch(|| {
          let mut a = Acc::new();
          check_graph(&mut a, &g, &analyzer, &ctx, false);
          a
        }) {
          Ok(a) => acc.merge(a),
          Err(p) => acc.violation(format!("panic/{}", p.signature()), p.message, ctx),
        }
      }
      Err(p) => acc.violation(format!("panic/build/{}", p.signature()), p.message, ctx),
    }
  }
  for sw in crate::fcprops::load_fast_check_specs() {
    acc.eval();
    let ctx = json!({"spec": sw.name});
    if let Ok(g) = crate::fcprops::fast_check_spec(&sw, None) {
      acc.count("corpus_fast_check_specs_run");
      let analyzer = CapturingModuleAnalyzer::default();
      match catch(|| {
        let mut a = Acc::new();
        check_graph(&mut a, &g, &analyzer, &ctx, false);
        a
      }) {
        Ok(a) => acc.merge(a),
        Err(p) => acc.violation(format!("panic/{}", p.signature()), p.message, ctx),
      }
    }
  }
}

pub fn run(tier: Tier, seed: u64, sanitizer_slice: bool) -> i32 {
  let mut rep = Report::new("C16", tier, seed);
  rep.rule = "generated programs of 2-6 modules (functions, overloads, expando properties, classes with static / instance / private / parameter-property / accessor / computed members and static blocks, abstract classes, merged interfaces, namespaces merged with functions / enums, nested namespaces, type-value collisions, class-interface merging, multi-declarator and destructuring variables, every default-export form, `declare global`, ambient modules; imports with aliases, namespace / default / type-only imports, import-equals, named / default / namespace re-exports incl. names that do not exist, alias chains that loop, and `export *` to arbitrary targets incl. the module itself and a missing one), plus the package generator's programs and the symbol and fast-check spec corpus. For every module of the graph the live structures from RootSymbol::module_from_specifier are walked: one root; every id exists; declarations carry the symbol's name and a byte range on character boundaries inside the text; definition symbols are listed by their parent exactly once, as child xor member, alias symbols not at all; one path from the root. exports(..).resolved keys equal the ES star-export model computed by the monitor's own scan of the sources (own names plus non-default own names of every star-reachable module), own names resolve directly, every entry lands in a module whose source exports the name, unresolved specifiers are exactly the star re-exports without a module. go_to_definitions_or_unresolveds from every symbol terminates (bounded) and yields definitions, export-star markers or unresolved markers. non-trivial = program with star re-exports; distinct by program".into();
  rep.assumptions = vec![
    "\"reachable from its parent exactly once\" is read as the repository's own invariant (tests/helpers): it applies to symbols whose declarations are all definitions; import / export alias symbols are not listed by their parent".into(),
    "star-name conflicts are resolved as a union (the statement's rule), not ES ambiguity".into(),
  ];
  if sanitizer_slice {
    rep.evidence_suffix = ".sanitizer".into();
    let n = 24;
    let mut acc = Acc::new();
    for i in 0..n {
      gen_case(i, seed, &mut acc, true);
    }
    rep.min_nontrivial = 4;
    rep.floor("symbols_checked", 300);
    rep.floor("goto_definitions", 100);
    return rep.finish(acc);
  }
  rep.floor("symbols_checked", tier.pick(200_000, 5_000_000));
  rep.floor("definition_symbols_checked", tier.pick(100_000, 2_000_000));
  rep.floor("alias_symbols_checked", tier.pick(5_000, 100_000));
  rep.floor("export_names_compared", tier.pick(50_000, 1_000_000));
  rep.floor("modules_with_unresolved_star_targets", tier.pick(200, 5000));
  rep.floor("goto_definitions", tier.pick(200_000, 5_000_000));
  rep.floor("goto_export_star_markers", tier.pick(10, 200));
  rep.floor("goto_unresolved_markers", tier.pick(500, 10_000));
  rep.floor("corpus_symbol_specs_run", 30);
  rep.min_nontrivial = tier.pick(1500, 50_000);
  let n = tier.pick(24000, 900000);
  let mut acc = par_run(n, |i, acc| gen_case(i, seed, acc, false));
  corpus(&mut acc);
  rep.finish(acc)
}
