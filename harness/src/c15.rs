// C15 — a walk visits exactly the selected reachable set, each entry once.
// C02 — validation fails exactly when a followed edge reaches a failure.
use crate::common::*;
use crate::eval::*;
use crate::r#gen::*;
use crate::walkmon::*;
use crate::world::*;
use deno_graph::GraphKind;
use deno_graph::ModuleGraph;
use deno_graph::ModuleSpecifier;
use serde_json::Value;
use serde_json::json;

pub fn random_cfg(rng: &mut Rng, gw: &GWorld) -> BuildCfg {
  BuildCfg {
    kind: *rng.pick(&[
      GraphKind::All,
      GraphKind::All,
      GraphKind::CodeOnly,
      GraphKind::TypesOnly,
    ]),
    skip_dynamic_deps: rng.chance(1, 8),
    is_dynamic: rng.chance(1, 10),
    resolver: gw.map_resolver(),
    ..Default::default()
  }
}

pub fn build_gworld(gw: &GWorld, cfg: &BuildCfg) -> Result<ModuleGraph, PanicInfo> {
  build_gworld_with_log(gw, cfg).map(|(g, _)| g)
}

pub fn build_gworld_with_log(gw: &GWorld, cfg: &BuildCfg) -> Result<(ModuleGraph, Vec<LoadEvent>), PanicInfo> {
  let world = gw.to_world();
  let loader = ScriptedLoader::new(&world);
  let mut graph = ModuleGraph::new(cfg.kind);
  catch(|| {
    run_build(
      &mut graph,
      &gw.roots,
      &gw.imports,
      &loader,
      cfg,
      None,
      Exec::Inline,
      None,
    );
  })?;
  let log = loader.take_log();
  Ok((graph, log))
}

/// Workspace-member fast check so that walks see fast-check modules.
pub fn add_fast_check(graph: &mut ModuleGraph, base: &str) -> bool {
  if !graph.graph_kind().include_types() {
    return false;
  }
  let members: Vec<deno_graph::WorkspaceMember> = graph
    .roots
    .iter()
    .filter(|r| r.as_str().starts_with(base) && r.path().ends_with(".ts"))
    .take(1)
    .map(|r| deno_graph::WorkspaceMember {
      base: url(base),
      name: "@ws/pkg".into(),
      version: Some(deno_semver::Version::parse_standard("1.0.0").unwrap()),
      exports: [(".".to_string(), format!("./{}", r.path().trim_start_matches('/')))]
        .into_iter()
        .collect(),
    })
    .collect();
  if members.is_empty() {
    return false;
  }
  let r = catch(|| {
    graph.build_fast_check_type_graph(deno_graph::BuildFastCheckTypeGraphOptions {
      fast_check_cache: None,
      fast_check_dts: false,
      jsr_url_provider: Default::default(),
      es_parser: None,
      resolver: None,
      workspace_fast_check: deno_graph::WorkspaceFastCheckOption::Enabled(&members),
    });
  });
  r.is_ok()
    && graph
      .modules()
      .any(|m| m.js().map(|j| j.fast_check_module().is_some()).unwrap_or(false))
}

pub fn pick_roots(rng: &mut Rng, graph: &ModuleGraph) -> Vec<ModuleSpecifier> {
  let mut pool: Vec<ModuleSpecifier> = graph.roots.iter().cloned().collect();
  match rng.below(4) {
    0 => pool,
    1 => {
      let n = rng.range(1, pool.len().max(1));
      rng.shuffle(&mut pool);
      pool.truncate(n);
      pool
    }
    _ => {
      // any specifier of the graph, incl. redirect sources and non-roots
      let mut all: Vec<ModuleSpecifier> =
        graph.specifiers().map(|(s, _)| s.clone()).collect();
      all.extend(graph.redirects.keys().cloned());
      all.sort();
      all.dedup();
      if all.is_empty() {
        return pool;
      }
      let n = rng.range(1, 3.min(all.len()));
      rng.shuffle(&mut all);
      all.truncate(n);
      all
    }
  }
}

/// (module, specifier text) pairs the generated sources import statically
/// at least once (the closure model's merged `is_dynamic`, Appendix A7)
fn static_edges_of(gw: &GWorld, kind: GraphKind) -> std::collections::BTreeSet<(String, String)> {
  let mut out = std::collections::BTreeSet::new();
  for m in &gw.modules {
    if !matches!(m.serve, Serve::Module | Serve::ModuleOtherFinal(_)) {
      continue;
    }
    let d = model_declarations(m, kind, gw.resolver.as_ref());
    for (text, dep) in &d.deps {
      if !dep.is_dynamic {
        out.insert((url(&m.url).to_string(), text.clone()));
      }
    }
  }
  out
}

fn one_world(i: usize, seed: u64, acc: &mut Acc, which: &str, walks_per_graph: usize) {
  let mut rng = Rng::new(seed).fork(i as u64);
  let gcfg = GenCfg {
    max_modules: rng.range(3, 10),
    max_items: rng.range(2, 6),
    ..Default::default()
  };
  let gw = gen_world(&mut rng, &gcfg);
  let cfg = random_cfg(&mut rng, &gw);
  let ctx = json!({"world": gw.to_json(), "build": cfg.to_json()});
  let mut graph = match build_gworld(&gw, &cfg) {
    Ok(g) => g,
    Err(p) => {
      acc.violation(
        format!("panic/{}", p.signature()),
        format!("build panicked: {}", p.message),
        ctx,
      );
      return;
    }
  };
  acc.count("graphs");
  if rng.chance(1, 3) {
    let base = if gw.roots[0].starts_with("file") {
      "file:///"
    } else {
      "https://h.test/"
    };
    if add_fast_check(&mut graph, base) {
      acc.count("graphs_with_fast_check_modules");
    }
  }
  if i < 2 {
    acc.sample(json!({"world": gw.to_json(), "build": cfg.to_json(),
      "specifiers": graph.specifiers().map(|(s, _)| s.to_string()).collect::<Vec<_>>()}));
  }
  if which == "C02" {
    crate::eval::set_static_edges(static_edges_of(&gw, cfg.kind));
  }
  for _ in 0..walks_per_graph {
    let roots = pick_roots(&mut rng, &graph);
    let o = random_opts(&mut rng, &graph);
    if which == "C15" {
      check_walk_set(acc, &graph, &roots, &o, &mut rng, 0, &ctx);
      check_walk_set(acc, &graph, &roots, &o, &mut rng, 2, &ctx);
      check_errors(acc, &graph, &roots, &o, &ctx, false);
    } else {
      check_errors(acc, &graph, &roots, &o, &ctx, true);
    }
  }
}

pub fn run_c15(tier: Tier, seed: u64) -> i32 {
  let mut rep = Report::new("C15", tier, seed);
  rep.rule = "case = (graph built by the real builder from a generated world under a random kind/options, \
    optionally with workspace fast-check modules; root subset incl. non-roots and redirect sources; walk options \
    kind x follow_dynamic x check_js{true,false,custom} x prefer_fast_check; random skip_previous_dependencies pattern); \
    the yielded sequence is compared with the evaluator's reachable set (worklist formulation, cross-checked against a naive fixpoint), \
    errors() with the evaluator's failure set; non-trivial = reachable set >= 2; distinct by (world, roots, options, skip set)"
    .into();
  rep.assumptions = vec![
    "the evaluator reads only public graph data (modules(), module_errors(), redirects, imports, dependencies)".into(),
    "skip_previous_dependencies is only exercised after Module entries".into(),
  ];
  rep.min_nontrivial = tier.pick(2000, 100_000);
  rep.floor("walks_with_skips", tier.pick(200, 5000));
  rep.floor("walks_prefer_fast_check", 200);
  rep.floor("graphs_with_fast_check_modules", 20);
  let n = tier.pick(12000, 4800000);
  let acc = par_run(n, |i, acc| one_world(i, seed, acc, "C15", 6));
  rep.finish(acc)
}

// ------------------------------------------------------------ C02 placements

#[derive(Clone, Copy, Debug, PartialEq, Eq)]
enum Edge {
  Static,
  Dynamic,
  /// `await import("T")` followed by `export * from "T"` in one module: static
  DynThenStatic,
  /// `import "T"` followed by `await import("T")`: static
  StaticThenDyn,
  TypeOnly,
  DenoTypes,
  SelfTypes,
  JsDoc,
  RefPath,
}

#[derive(Clone, Copy, Debug, PartialEq, Eq)]
enum Fail {
  Missing,
  LoadErr,
  Parse,
  UnsupportedMedia,
  BareSpecifier,
  ResolverError,
  Downgrade,
  LocalImport,
  TypeAssertion,
  /// policy edges whose target is a redirect source ending on another scheme: the policy is about the
  /// imported specifier, not about where the loader ends up
  DowngradeRedirectedBack,
  HttpsRedirectedToHttp,
  LocalImportRedirectedToRemote,
}

fn placement_world(
  edge1: Edge,
  edge2: Edge,
  fail: Fail,
  hops: usize,
  js_mid: bool,
) -> Option<GWorld> {
  // root --edge1--> mid --edge2--> [redirect chain] --> failing target
  let base = "https://h.test/";
  let root_media = if edge1 == Edge::SelfTypes || edge1 == Edge::JsDoc {
    Media::Js
  } else {
    Media::Ts
  };
  let mid_media = if edge2 == Edge::SelfTypes || edge2 == Edge::JsDoc || js_mid {
    Media::Js
  } else {
    Media::Ts
  };
  let typed_only = |e: Edge| matches!(e, Edge::TypeOnly);
  if typed_only(edge1) && root_media != Media::Ts {
    return None;
  }
  if typed_only(edge2) && mid_media != Media::Ts {
    return None;
  }
  let root_url = format!("{}root.{}", base, root_media.ext());
  let mid_url = format!("{}mid.{}", base, mid_media.ext());
  let target_text: String = match fail {
    Fail::BareSpecifier => "bare-thing".into(),
    Fail::ResolverError => "will-fail".into(),
    Fail::Downgrade => "http://h.test/down.ts".into(),
    Fail::LocalImport => "file:///local.ts".into(),
    Fail::DowngradeRedirectedBack => "http://h.test/back.ts".into(),
    Fail::HttpsRedirectedToHttp => format!("{}tohttp.ts", base),
    Fail::LocalImportRedirectedToRemote => "file:///moved.ts".into(),
    _ => {
      if hops > 0 {
        format!("{}hop0.ts", base)
      } else {
        format!("{}target.ts", base)
      }
    }
  };
  let mk_items = |e: Edge, text: &str| -> Vec<Item> {
    match e {
      Edge::Static => vec![Item {
        form: Form::Import,
        text: text.into(),
        deno_types: None,
      }],
      Edge::Dynamic => vec![Item {
        form: Form::DynImport,
        text: text.into(),
        deno_types: None,
      }],
      Edge::DynThenStatic => vec![
        Item { form: Form::DynImport, text: text.into(), deno_types: None },
        Item { form: Form::ExportStar, text: text.into(), deno_types: None },
      ],
      Edge::StaticThenDyn => vec![
        Item { form: Form::SideEffect, text: text.into(), deno_types: None },
        Item { form: Form::DynImport, text: text.into(), deno_types: None },
      ],
      Edge::TypeOnly => vec![Item {
        form: Form::ImportType,
        text: text.into(),
        deno_types: None,
      }],
      Edge::DenoTypes => vec![Item {
        form: Form::Import,
        text: format!("{}ok.ts", base),
        deno_types: Some(text.into()),
      }],
      Edge::SelfTypes => vec![Item {
        form: Form::SelfTypes,
        text: text.into(),
        deno_types: None,
      }],
      Edge::JsDoc => vec![Item {
        form: Form::JsDoc,
        text: text.into(),
        deno_types: None,
      }],
      Edge::RefPath => vec![Item {
        form: Form::RefPath,
        text: text.into(),
        deno_types: None,
      }],
    }
  };
  let mut modules = vec![
    GModule {
      url: root_url.clone(),
      media: root_media,
      via_header: false,
      items: mk_items(edge1, &mid_url),
      x_ts_types: None,
      source_map: None,
      broken: false,
      serve: Serve::Module,
    },
    GModule {
      url: mid_url.clone(),
      media: mid_media,
      via_header: false,
      items: if fail == Fail::TypeAssertion {
        vec![Item {
          form: if edge2 == Edge::Dynamic {
            Form::DynImportJson
          } else {
            Form::ImportJson
          },
          text: target_text.clone(),
          deno_types: None,
        }]
      } else {
        mk_items(edge2, &target_text)
      },
      x_ts_types: None,
      source_map: None,
      broken: false,
      serve: Serve::Module,
    },
    GModule {
      url: format!("{}ok.ts", base),
      media: Media::Ts,
      via_header: false,
      items: vec![],
      x_ts_types: None,
      source_map: None,
      broken: false,
      serve: Serve::Module,
    },
    GModule {
      url: "http://h.test/down.ts".into(),
      media: Media::Ts,
      via_header: false,
      items: vec![],
      x_ts_types: None,
      source_map: None,
      broken: false,
      serve: Serve::Module,
    },
    GModule {
      url: "file:///local.ts".into(),
      media: Media::Ts,
      via_header: false,
      items: vec![],
      x_ts_types: None,
      source_map: None,
      broken: false,
      serve: Serve::Module,
    },
  ];
  for (from, to) in [
    ("http://h.test/back.ts".to_string(), format!("{}ok.ts", base)),
    (format!("{}tohttp.ts", base), "http://h.test/down.ts".to_string()),
    ("file:///moved.ts".to_string(), format!("{}ok.ts", base)),
  ] {
    modules.push(GModule {
      url: from,
      media: Media::Ts,
      via_header: false,
      items: vec![],
      x_ts_types: None,
      source_map: None,
      broken: false,
      serve: Serve::Redirect(to),
    });
  }
  for h in 0..hops {
    let to = if h + 1 == hops {
      format!("{}target.ts", base)
    } else {
      format!("{}hop{}.ts", base, h + 1)
    };
    modules.push(GModule {
      url: format!("{}hop{}.ts", base, h),
      media: Media::Ts,
      via_header: false,
      items: vec![],
      x_ts_types: None,
      source_map: None,
      broken: false,
      serve: Serve::Redirect(to),
    });
  }
  let target = GModule {
    url: format!("{}target.ts", base),
    media: Media::Ts,
    via_header: false,
    items: vec![],
    x_ts_types: None,
    source_map: None,
    broken: false,
    serve: Serve::Module,
  };
  match fail {
    Fail::Missing => {}
    Fail::LoadErr => modules.push(GModule {
      serve: Serve::Err,
      ..target
    }),
    Fail::Parse => modules.push(GModule {
      broken: true,
      ..target
    }),
    Fail::UnsupportedMedia => {
      // a text file reached by import
      modules.push(GModule {
        url: format!("{}target.ts", base),
        media: Media::Unknown,
        via_header: true,
        ..target
      });
    }
    _ => modules.push(target),
  }
  let mut resolver = None;
  if fail == Fail::ResolverError {
    let mut r = GResolver::default();
    r.fail.insert("will-fail".into(), "resolver says no".into());
    resolver = Some(r);
  }
  Some(GWorld {
    modules,
    roots: vec![root_url],
    imports: vec![],
    resolver,
  })
}

fn all_opts() -> Vec<EvalOpts> {
  let mut v = vec![];
  for kind in [GraphKind::All, GraphKind::CodeOnly, GraphKind::TypesOnly] {
    for follow_dynamic in [false, true] {
      for cj in 0..3 {
        for prefer_fast_check in [false, true] {
          v.push(EvalOpts {
            kind,
            follow_dynamic,
            check_js: match cj {
              0 => CheckJs::True,
              1 => CheckJs::False,
              _ => CheckJs::Custom(
                ["https://h.test/mid.js".to_string()].into_iter().collect(),
              ),
            },
            prefer_fast_check,
          });
        }
      }
    }
  }
  v
}

/// Known-answer worlds for C02: a failure behind the entry module of a JSR
/// package that is imported *statically*, next to unrelated dynamic imports.
/// The expected verdict follows from the sources alone.
fn registry_known_answers(acc: &mut Acc) {
  use crate::world::World;
  let fails = ["json-without-attribute", "missing", "parse-error"];
  for root_scheme in ["file:///", "https://h.test/"] {
    for dyn_pos in ["none", "before", "after", "two"] {
      for dyn_target in ["local", "jsr"] {
        for depth in [0usize, 1] {
          for via_local in [false, true] {
            for jsr_static in [true, false] {
              for fail in fails {
                let mut w = World::new();
                // the package
                let mut files: Vec<(String, String)> = vec![];
                let fail_import = match fail {
                  "json-without-attribute" => "import data from \"./data.json\";\nconsole.log(data);\n",
                  "missing" => "import \"./gone.ts\";\n",
                  _ => "import \"./broken.ts\";\n",
                };
                if depth == 0 {
                  files.push(("/mod.ts".into(), format!("{}export const a = 1;\n", fail_import)));
                } else {
                  files.push(("/mod.ts".into(), "export * from \"./inner.ts\";\n".into()));
                  files.push(("/inner.ts".into(), format!("{}export const a = 1;\n", fail_import)));
                }
                files.push(("/data.json".into(), "{\"a\": 1}".into()));
                files.push(("/broken.ts".into(), "export const = ;\n".into()));
                let mut manifest = serde_json::Map::new();
                for (p, src) in &files {
                  manifest.insert(p.clone(), json!({"size": src.len(), "checksum": format!("sha256-{}", crate::world::sha256_hex(src.as_bytes()))}));
                  w.add_text(&format!("https://jsr.io/@s/a/1.0.0{}", p), src);
                }
                w.add_text("https://jsr.io/@s/a/meta.json", "{\"versions\":{\"1.0.0\":{}}}");
                w.add_text("https://jsr.io/@s/a/1.0.0_meta.json", &json!({"exports": {".": "./mod.ts"}, "manifest": manifest}).to_string());
                // an unrelated, healthy package for dynamic imports
                let okm = "export const ok = 1;\n";
                w.add_text("https://jsr.io/@s/ok/meta.json", "{\"versions\":{\"1.0.0\":{}}}");
                w.add_text(
                  "https://jsr.io/@s/ok/1.0.0_meta.json",
                  &json!({"exports": {".": "./mod.ts"}, "manifest": {"/mod.ts": {"size": okm.len(), "checksum": format!("sha256-{}", crate::world::sha256_hex(okm.as_bytes()))}}}).to_string(),
                );
                w.add_text("https://jsr.io/@s/ok/1.0.0/mod.ts", okm);
                w.add_text(&format!("{}ok.ts", root_scheme), okm);
                w.add_text(&format!("{}ok2.ts", root_scheme), okm);
                let dyn_stmt = |n: usize| {
                  if dyn_target == "jsr" && n == 0 {
                    "await import(\"jsr:@s/ok@1\");\n".to_string()
                  } else {
                    format!("await import(\"./ok{}.ts\");\n", if n == 0 { "" } else { "2" })
                  }
                };
                let jsr_stmt = if jsr_static { "import \"jsr:@s/a@1\";\n" } else { "await import(\"jsr:@s/a@1\");\n" };
                let mut body = String::new();
                match dyn_pos {
                  "before" => {
                    body.push_str(&dyn_stmt(0));
                    body.push_str(jsr_stmt);
                  }
                  "after" => {
                    body.push_str(jsr_stmt);
                    body.push_str(&dyn_stmt(0));
                  }
                  "two" => {
                    body.push_str(&dyn_stmt(0));
                    body.push_str(jsr_stmt);
                    body.push_str(&dyn_stmt(1));
                  }
                  _ => body.push_str(jsr_stmt),
                }
                let root = format!("{}main.ts", root_scheme);
                if via_local {
                  w.add_text(&root, "import \"./uses.ts\";\n");
                  w.add_text(&format!("{}uses.ts", root_scheme), &body);
                } else {
                  w.add_text(&root, &body);
                }
                let ctx = json!({"known_answer": {"root": root, "dynamic_imports": dyn_pos, "dynamic_target": dyn_target, "depth": depth,
                  "via_local_module": via_local, "package_imported_statically": jsr_static, "failure": fail}, "main": body});
                acc.eval();
                let built = catch(|| crate::world::build_simple(&w, &[root.as_str()], &BuildCfg::default()));
                let (graph, _) = match built {
                  Ok(x) => x,
                  Err(p) => {
                    acc.violation(format!("panic/{}", p.signature()), p.message, ctx);
                    continue;
                  }
                };
                acc.count("registry_known_answer_graphs");
                for follow_dynamic in [false, true] {
                  // everything behind a dynamic import is loaded in a dynamic
                  // branch, where JSON is accepted without the attribute
                  let expected_err = jsr_static || (follow_dynamic && fail != "json-without-attribute");
                  let verdict = graph
                    .walk(
                      [url(&root)].iter(),
                      deno_graph::WalkOptions {
                        check_js: deno_graph::CheckJsOption::True,
                        follow_dynamic,
                        kind: GraphKind::All,
                        prefer_fast_check_graph: false,
                      },
                    )
                    .validate();
                  acc.count(if expected_err { "registry_known_answer:expected-err" } else { "registry_known_answer:expected-ok" });
                  acc.nontrivial(hash64(&(ctx.to_string(), follow_dynamic)));
                  match (&verdict, expected_err) {
                    (Ok(()), true) => acc.violation(
                      format!("registry-known-answer/validate-ok-but-failure-reachable/{}/dyn={}", fail, follow_dynamic),
                      format!("the package entry statically reaches a {} but validation succeeded", fail),
                      json!({"ctx": ctx, "graph": crate::world::graph_json(&graph)}),
                    ),
                    (Err(e), false) => acc.violation(
                      format!("registry-known-answer/validate-fails-on-unfollowed-dynamic-edge/{}", fail),
                      format!("the package is only imported dynamically and follow_dynamic is off, yet: {}", e.to_string().lines().next().unwrap_or("")),
                      json!({"ctx": ctx}),
                    ),
                    (Err(e), true) => {
                      // the error names the failing specifier
                      let text = e.to_string_with_range();
                      let names = match fail {
                        "json-without-attribute" => "data.json",
                        "missing" => "gone.ts",
                        _ => "broken.ts",
                      };
                      if !text.contains(names) {
                        acc.violation(
                          format!("registry-known-answer/error-names-another-specifier/{}", fail),
                          format!("expected an error about {}, got: {}", names, text.lines().next().unwrap_or("")),
                          json!({"ctx": ctx}),
                        );
                      }
                    }
                    _ => {}
                  }
                }
              }
            }
          }
        }
      }
    }
  }
}

pub fn run_c02(tier: Tier, seed: u64) -> i32 {
  let mut rep = Report::new("C02", tier, seed);
  rep.rule = "two workloads. (1) failure placement, exhaustive: root --edge1--> mid --edge2--> redirect chain (0-3 hops) --> failure, \
    edge kinds {static, dynamic, import type, @deno-types, @ts-self-types, JSDoc import, reference path} x failure kinds \
    {missing, load error, parse error, unsupported media type, bare specifier, resolver error, https->http, remote->file:, json type assertion} \
    x build kind {All, CodeOnly, TypesOnly} x all 36 walk option sets x roots {root, mid, graph roots}; \
    (2) generated random worlds x random options. validate()/errors()/valid() are compared with the evaluator's reachable-failure set \
    (verdict both directions, reported error in the set, referrer among the followed edges; an edge the generated sources import statically at least once is followed as static whatever the graph's flag says). \
    (3) known-answer registry worlds: a JSR package whose entry statically reaches {json without attribute, missing file, parse error} at depth 0-1, imported statically or dynamically, directly or through a local module, next to 0-2 unrelated dynamic imports (local or jsr) placed before / after: validation must fail exactly when the package is reached by followed edges and name the failing file. non-trivial = a failure exists somewhere in the graph; \
    distinct by (world, roots, options)"
    .into();
  rep.assumptions = vec![
    "resolution errors on type edges count only for modules that are type-checked under check_js (as the walk documents)".into(),
  ];
  rep.min_nontrivial = tier.pick(2000, 50_000);
  rep.floor("expected_verdict:ok", 200);
  rep.floor("expected_verdict:err", 200);

  let edges = [
    Edge::Static,
    Edge::Dynamic,
    Edge::DynThenStatic,
    Edge::StaticThenDyn,
    Edge::TypeOnly,
    Edge::DenoTypes,
    Edge::SelfTypes,
    Edge::JsDoc,
    Edge::RefPath,
  ];
  let fails = [
    Fail::Missing,
    Fail::LoadErr,
    Fail::Parse,
    Fail::UnsupportedMedia,
    Fail::BareSpecifier,
    Fail::ResolverError,
    Fail::Downgrade,
    Fail::LocalImport,
    Fail::TypeAssertion,
    Fail::DowngradeRedirectedBack,
    Fail::HttpsRedirectedToHttp,
    Fail::LocalImportRedirectedToRemote,
  ];
  let mut placements: Vec<(GWorld, Value)> = vec![];
  for &e1 in &edges {
    for &e2 in &edges {
      for &f in &fails {
        for hops in 0..=3usize {
          if hops > 0
            && matches!(
              f,
              Fail::BareSpecifier
                | Fail::ResolverError
                | Fail::Downgrade
                | Fail::LocalImport
                | Fail::DowngradeRedirectedBack
                | Fail::HttpsRedirectedToHttp
                | Fail::LocalImportRedirectedToRemote
            )
          {
            continue;
          }
          if tier == Tier::Quick && hops == 3 {
            continue;
          }
          for js_mid in [false, true] {
            if let Some(w) = placement_world(e1, e2, f, hops, js_mid) {
              placements.push((
                w,
                json!({"edge1": format!("{:?}", e1), "edge2": format!("{:?}", e2),
                  "failure": format!("{:?}", f), "hops": hops, "js_mid": js_mid}),
              ));
            }
          }
        }
      }
    }
  }
  let opts = all_opts();
  let n_place = placements.len();
  let mut acc = par_run(n_place, |i, acc| {
    let (gw, pj) = &placements[i];
    for kind in [GraphKind::All, GraphKind::CodeOnly, GraphKind::TypesOnly] {
      let cfg = BuildCfg {
        kind,
        resolver: gw.map_resolver(),
        ..Default::default()
      };
      let ctx = json!({"placement": pj, "build_kind": format!("{:?}", kind), "world": gw.to_json()});
      let graph = match build_gworld(gw, &cfg) {
        Ok(g) => g,
        Err(p) => {
          acc.violation(
            format!("panic/{}", p.signature()),
            format!("build panicked: {}", p.message),
            ctx,
          );
          continue;
        }
      };
      acc.count("placement_graphs");
      crate::eval::set_static_edges(static_edges_of(gw, kind));
      acc.set_add("placements_seen", format!("{}", pj));
      if i % 97 == 0 && kind == GraphKind::All {
        acc.sample(json!({"placement": pj}));
      }
      let root_sets = [
        vec![url(&gw.roots[0])],
        vec![url(&gw.modules[1].url)],
      ];
      for (ri, roots) in root_sets.iter().enumerate() {
        for o in &opts {
          check_errors(acc, &graph, roots, o, &ctx, ri == 0);
        }
      }
    }
  });
  let n = tier.pick(9600, 3200000);
  let acc2 = par_run(n, |i, acc| one_world(i, seed, acc, "C02", 8));
  acc.merge(acc2);
  registry_known_answers(&mut acc);
  rep.floor("registry_known_answer_graphs", 300);
  rep.extra.insert("placements".into(), json!(n_place));
  rep.finish(acc)
}
