// E2: deterministic single-threaded scheduler.
//
// Loader futures are *gates*: each stays Pending until the scheduler releases
// it (and, optionally, for k further polls). Tasks handed to the `Executor`
// trait are separate schedulable units. Whenever the root future is Pending
// the scheduler picks one enabled action according to a `Strategy`; the
// sequence of picks is the schedule's identity.
#![allow(dead_code)]

use crate::common::Rng;
use deno_graph::Executor;
use std::cell::RefCell;
use std::future::Future;
use std::pin::Pin;
use std::rc::Rc;
use std::task::Context;
use std::task::Poll;
use std::task::RawWaker;
use std::task::RawWakerVTable;
use std::task::Waker;

fn noop_raw() -> RawWaker {
  fn clone(_: *const ()) -> RawWaker {
    noop_raw()
  }
  fn noop(_: *const ()) {}
  static VT: RawWakerVTable = RawWakerVTable::new(clone, noop, noop, noop);
  RawWaker::new(std::ptr::null(), &VT)
}

pub fn noop_waker() -> Waker {
  unsafe { Waker::from_raw(noop_raw()) }
}

/// Simple block_on for futures that never need an external wake-up (all our
/// immediately-ready loaders). Panics after `max_polls` Pending results.
pub fn block_on<F: Future>(fut: F) -> F::Output {
  let mut fut = std::pin::pin!(fut);
  let waker = noop_waker();
  let mut cx = Context::from_waker(&waker);
  let mut polls = 0u64;
  loop {
    match fut.as_mut().poll(&mut cx) {
      Poll::Ready(v) => return v,
      Poll::Pending => {
        polls += 1;
        if polls > 5_000_000 {
          panic!("dgv block_on: step budget exceeded (future never completes)");
        }
      }
    }
  }
}

/// Executor that runs the spawned future inline (what deno_graph does on wasm).
pub struct InlineExecutor;
impl Executor for InlineExecutor {
  fn execute(
    &self,
    fut: Pin<Box<dyn Future<Output = ()> + 'static>>,
  ) -> Pin<Box<dyn Future<Output = ()> + 'static>> {
    fut
  }
}

#[derive(Clone, Debug)]
pub enum Strategy {
  /// always release the lowest-numbered enabled gate (FIFO)
  Fifo,
  /// always release the highest-numbered enabled gate (LIFO)
  Lifo,
  /// random choice, each future additionally delayed by 0..=max_extra polls
  Random { seed: u64, max_extra: u32 },
  /// follow the recorded prefix, then FIFO (used by the DFS enumerator)
  Prefix(Vec<usize>),
}

struct Gate {
  label: String,
  released: bool,
  extra: u32,
  done: bool,
  waker: Option<Waker>,
}

struct Task {
  fut: Option<Pin<Box<dyn Future<Output = ()> + 'static>>>,
  done: bool,
  waker: Option<Waker>,
}

#[derive(Default)]
struct Inner {
  gates: Vec<Gate>,
  tasks: Vec<Task>,
  /// choices[i] = (picked index among enabled, number enabled, label)
  choices: Vec<(usize, usize, String)>,
  max_width: usize,
  rng: Option<Rng>,
  max_extra: u32,
}

#[derive(Clone, Default)]
pub struct Sched {
  inner: Rc<RefCell<Inner>>,
  spawn_tasks: bool,
}

pub struct GateFuture<T> {
  sched: Sched,
  id: usize,
  value: Option<T>,
}

impl<T: Unpin> Future for GateFuture<T> {
  type Output = T;
  fn poll(mut self: Pin<&mut Self>, cx: &mut Context<'_>) -> Poll<T> {
    let id = self.id;
    let mut inner = self.sched.inner.borrow_mut();
    let g = &mut inner.gates[id];
    if g.released {
      if g.extra == 0 {
        g.done = true;
        drop(inner);
        return Poll::Ready(self.value.take().expect("gate polled after ready"));
      }
      g.extra -= 1;
      cx.waker().wake_by_ref();
      return Poll::Pending;
    }
    g.waker = Some(cx.waker().clone());
    Poll::Pending
  }
}

impl<T> Drop for GateFuture<T> {
  fn drop(&mut self) {
    if let Ok(mut inner) = self.sched.inner.try_borrow_mut() {
      inner.gates[self.id].done = true;
    }
  }
}

struct TaskHandle {
  sched: Sched,
  id: usize,
}

impl Future for TaskHandle {
  type Output = ();
  fn poll(self: Pin<&mut Self>, cx: &mut Context<'_>) -> Poll<()> {
    let mut inner = self.sched.inner.borrow_mut();
    let t = &mut inner.tasks[self.id];
    if t.done {
      Poll::Ready(())
    } else {
      t.waker = Some(cx.waker().clone());
      Poll::Pending
    }
  }
}

impl Executor for Sched {
  fn execute(
    &self,
    fut: Pin<Box<dyn Future<Output = ()> + 'static>>,
  ) -> Pin<Box<dyn Future<Output = ()> + 'static>> {
    if !self.spawn_tasks {
      return fut;
    }
    let mut inner = self.inner.borrow_mut();
    let id = inner.tasks.len();
    inner.tasks.push(Task {
      fut: Some(fut),
      done: false,
      waker: None,
    });
    Box::pin(TaskHandle {
      sched: self.clone(),
      id,
    })
  }
}

#[derive(Debug, Clone)]
pub struct SchedOutcome {
  pub choices: Vec<(usize, usize, String)>,
  pub max_width: usize,
  pub steps: u64,
  pub deadlock: bool,
  pub budget_exceeded: bool,
}

impl Sched {
  pub fn new(spawn_tasks: bool) -> Self {
    Sched {
      inner: Default::default(),
      spawn_tasks,
    }
  }

  /// Create a gate future yielding `value` once released.
  pub fn gate<T: Unpin + 'static>(&self, label: String, value: T) -> GateFuture<T> {
    let mut inner = self.inner.borrow_mut();
    let id = inner.gates.len();
    let extra = if inner.max_extra > 0 {
      let me = inner.max_extra;
      inner
        .rng
        .as_mut()
        .map(|r| r.below(me as usize + 1) as u32)
        .unwrap_or(0)
    } else {
      0
    };
    inner.gates.push(Gate {
      label,
      released: false,
      extra,
      done: false,
      waker: None,
    });
    GateFuture {
      sched: self.clone(),
      id,
      value: Some(value),
    }
  }

  fn poll_tasks(&self, cx: &mut Context<'_>) -> bool {
    // poll every unfinished task once, in index order; returns whether any
    // task completed (progress).
    let mut progressed = false;
    let n = self.inner.borrow().tasks.len();
    for i in 0..n {
      let fut = {
        let mut inner = self.inner.borrow_mut();
        let t = &mut inner.tasks[i];
        if t.done { None } else { t.fut.take() }
      };
      if let Some(mut fut) = fut {
        match fut.as_mut().poll(cx) {
          Poll::Ready(()) => {
            let w = {
              let mut inner = self.inner.borrow_mut();
              inner.tasks[i].done = true;
              inner.tasks[i].waker.take()
            };
            if let Some(w) = w {
              w.wake();
            }
            progressed = true;
          }
          Poll::Pending => {
            self.inner.borrow_mut().tasks[i].fut = Some(fut);
          }
        }
      }
    }
    progressed
  }

  /// Drive `fut` to completion under `strategy`.
  pub fn run<F: Future>(
    &self,
    fut: F,
    strategy: Strategy,
    step_budget: u64,
  ) -> (Option<F::Output>, SchedOutcome) {
    {
      let mut inner = self.inner.borrow_mut();
      if let Strategy::Random { seed, max_extra } = &strategy {
        inner.rng = Some(Rng::new(*seed));
        inner.max_extra = *max_extra;
      }
    }
    let mut fut = std::pin::pin!(fut);
    let waker = noop_waker();
    let mut cx = Context::from_waker(&waker);
    let mut steps = 0u64;
    let mut decision = 0usize;
    let mut idle_rounds = 0u32;
    loop {
      steps += 1;
      if steps > step_budget {
        return (None, self.outcome(steps, false, true));
      }
      if let Poll::Ready(v) = fut.as_mut().poll(&mut cx) {
        return (Some(v), self.outcome(steps, false, false));
      }
      let task_progress = self.poll_tasks(&mut cx);
      // enabled gates: created, not released, not dropped
      let enabled: Vec<usize> = {
        let inner = self.inner.borrow();
        inner
          .gates
          .iter()
          .enumerate()
          .filter(|(_, g)| !g.released && !g.done)
          .map(|(i, _)| i)
          .collect()
      };
      if enabled.is_empty() {
        // nothing to release: either released gates are still counting down
        // extra polls / tasks are progressing, or we are stuck
        let waiting = {
          let inner = self.inner.borrow();
          inner.gates.iter().any(|g| g.released && !g.done)
            || inner.tasks.iter().any(|t| !t.done)
        };
        if !waiting && !task_progress {
          idle_rounds += 1;
          if idle_rounds > 3 {
            return (None, self.outcome(steps, true, false));
          }
        }
        continue;
      }
      idle_rounds = 0;
      let pick = match &strategy {
        Strategy::Fifo => 0,
        Strategy::Lifo => enabled.len() - 1,
        Strategy::Random { .. } => {
          let mut inner = self.inner.borrow_mut();
          inner.rng.as_mut().unwrap().below(enabled.len())
        }
        Strategy::Prefix(p) => {
          if decision < p.len() {
            p[decision].min(enabled.len() - 1)
          } else {
            0
          }
        }
      };
      decision += 1;
      let gid = enabled[pick];
      let w = {
        let mut inner = self.inner.borrow_mut();
        inner.max_width = inner.max_width.max(enabled.len());
        let label = inner.gates[gid].label.clone();
        inner.choices.push((pick, enabled.len(), label));
        inner.gates[gid].released = true;
        inner.gates[gid].waker.take()
      };
      if let Some(w) = w {
        w.wake();
      }
    }
  }

  fn outcome(&self, steps: u64, deadlock: bool, budget: bool) -> SchedOutcome {
    let inner = self.inner.borrow();
    SchedOutcome {
      choices: inner.choices.clone(),
      max_width: inner.max_width,
      steps,
      deadlock,
      budget_exceeded: budget,
    }
  }
}

/// Depth-first enumeration of all schedules: calls `run_one(prefix)` which
/// must execute the build under `Strategy::Prefix(prefix)` and return the
/// recorded choices; stops after `max_runs`. Returns (runs, exhaustive).
pub fn enumerate_schedules(
  max_runs: usize,
  mut run_one: impl FnMut(&[usize]) -> Vec<(usize, usize, String)>,
) -> (usize, bool) {
  let mut prefix: Vec<usize> = vec![];
  let mut runs = 0;
  loop {
    let choices = run_one(&prefix);
    runs += 1;
    // the actual path taken
    let mut path: Vec<(usize, usize)> =
      choices.iter().map(|(p, n, _)| (*p, *n)).collect();
    // backtrack: find deepest position with an untried alternative
    loop {
      match path.pop() {
        None => return (runs, true),
        Some((p, n)) => {
          if p + 1 < n {
            prefix = path.iter().map(|(p, _)| *p).collect();
            prefix.push(p + 1);
            break;
          }
        }
      }
    }
    if runs >= max_runs {
      return (runs, false);
    }
  }
}
