// C08 — module analysis finds every dependency once, with exact specifier ranges.
//
// Generator-known-answer: a program is a sequence of constructs separated by
// hostile trivia; for every dependency-bearing construct the generator records
// the exact token it wrote (with quotes when the construct has them) and the
// unescaped value. The analyser's ranges are mapped back to bytes by an
// independent (line, scalar-value column) -> byte mapping.
use crate::common::*;
use crate::world::url;
use deno_graph::MediaType;
use deno_graph::ModuleSpecifier;
use deno_graph::Position;
use deno_graph::PositionRange;
use deno_graph::analysis::DependencyDescriptor;
use deno_graph::analysis::DynamicArgument;
use deno_graph::analysis::ModuleInfo;
use deno_graph::analysis::TypeScriptReference;
use deno_graph::ast::ParserModuleAnalyzer;
use serde_json::Value;
use serde_json::json;
use std::sync::Arc;

#[derive(Clone, Debug, PartialEq, Eq, PartialOrd, Ord)]
pub struct Expect {
  /// byte offset of the token in the final source
  pub start: usize,
  pub token: String,
  pub value: String,
  pub category: &'static str,
  /// "kind=<StaticDependencyKind|DynamicDependencyKind>;side_effect=<bool>;attrs=<k=v,...|none|unknown>" when the
  /// construct pins it
  pub detail: Option<String>,
}

struct Builder {
  src: String,
  expects: Vec<Expect>,
}

impl Builder {
  fn push(&mut self, s: &str) {
    self.src.push_str(s);
  }
  fn token(&mut self, token: &str, value: &str, category: &'static str) {
    self.expects.push(Expect {
      start: self.src.len(),
      token: token.to_string(),
      value: value.to_string(),
      category,
      detail: None,
    });
    self.src.push_str(token);
  }
  /// pins kind / side-effect flag / attributes of the token written last
  fn detail(&mut self, kind: &str, side_effect: bool, attrs: &str) {
    if let Some(e) = self.expects.last_mut() {
      e.detail = Some(format!("kind={};side_effect={};attrs={}", kind, side_effect, attrs));
    }
  }
}

const NAMES: &[&str] = &[
  "./a.ts", "../lib/b.js", "https://example.com/x/mod.ts", "./dép/ç.ts", "./😀/m.ts", "npm:pkg@1",
  "jsr:@s/p@^1", "./sp ace.ts", "./q'uote.ts", "/abs.mjs", "./a\u{0301}.ts", "node:fs", "./x.json",
];

/// (literal as written incl. quotes, unescaped value)
fn string_literal(rng: &mut Rng, value: &str) -> (String, String) {
  let q = if value.contains('\'') { '"' } else if rng.coin() { '"' } else { '\'' };
  let mut lit = String::new();
  lit.push(q);
  for ch in value.chars() {
    let r = rng.below(14);
    if ch == q || ch == '\\' {
      lit.push('\\');
      lit.push(ch);
    } else if r == 0 && ch.is_ascii() {
      lit.push_str(&format!("\\x{:02x}", ch as u32));
    } else if r == 1 && (ch as u32) <= 0xFFFF {
      lit.push_str(&format!("\\u{:04x}", ch as u32));
    } else if r == 2 {
      lit.push_str(&format!("\\u{{{:x}}}", ch as u32));
    } else if r == 3 && (ch as u32) > 0xFFFF {
      // surrogate pair escapes
      let v = ch as u32 - 0x10000;
      lit.push_str(&format!("\\u{:04x}\\u{:04x}", 0xD800 + (v >> 10), 0xDC00 + (v & 0x3FF)));
    } else {
      lit.push(ch);
    }
  }
  lit.push(q);
  (lit, value.to_string())
}

fn trivia(rng: &mut Rng, allow_newline_forms: bool) -> String {
  let mut s = String::new();
  for _ in 0..rng.below(3) {
    match rng.below(10) {
      0 => s.push_str("/* plain */"),
      1 => s.push_str("/* import \"./decoy.ts\"; import('./decoy2.ts') */"),
      2 => s.push_str("/* ünï 😀 a\u{0301} \u{2028} ✓ */"),
      3 if allow_newline_forms => s.push_str("// @deno-types-not=\"./decoy.d.ts\" 😀\n"),
      4 if allow_newline_forms => s.push_str("\r\n"),
      5 if allow_newline_forms => s.push('\n'),
      6 => s.push_str("  \t"),
      7 if allow_newline_forms => s.push_str("// é è 😀😀 line comment with import './decoy3.ts'\r\n"),
      8 => s.push_str("/** @notimport {import(./x)} */"),
      _ => s.push(' '),
    }
  }
  s
}

#[derive(Clone, Copy, PartialEq, Eq, Debug)]
enum Lang {
  Js,
  Jsx,
  Ts,
  Tsx,
  Dts,
  Mjs,
}

impl Lang {
  fn media(&self) -> MediaType {
    match self {
      Lang::Js => MediaType::JavaScript,
      Lang::Jsx => MediaType::Jsx,
      Lang::Ts => MediaType::TypeScript,
      Lang::Tsx => MediaType::Tsx,
      Lang::Dts => MediaType::Dts,
      Lang::Mjs => MediaType::Mjs,
    }
  }
  fn ext(&self) -> &'static str {
    match self {
      Lang::Js => "js",
      Lang::Jsx => "jsx",
      Lang::Ts => "ts",
      Lang::Tsx => "tsx",
      Lang::Dts => "d.ts",
      Lang::Mjs => "mjs",
    }
  }
  fn typed(&self) -> bool {
    matches!(self, Lang::Ts | Lang::Tsx | Lang::Dts)
  }
  fn plain_js(&self) -> bool {
    matches!(self, Lang::Js | Lang::Jsx | Lang::Mjs)
  }
}

pub struct Program {
  pub lang_name: String,
  pub media: MediaType,
  pub specifier: ModuleSpecifier,
  pub source: String,
  pub expects: Vec<Expect>,
  pub constructs: Vec<&'static str>,
}

fn quoteless_name(rng: &mut Rng) -> &'static str {
  *rng.pick(&["./types.d.ts", "https://esm.sh/preact", "./ü/ñ.d.ts", "./😀.d.ts", "npm:react"])
}

pub fn gen_program(rng: &mut Rng, forced: Option<usize>) -> Program {
  let lang = *rng.pick(&[Lang::Js, Lang::Jsx, Lang::Ts, Lang::Ts, Lang::Tsx, Lang::Dts, Lang::Mjs]);
  let mut b = Builder {
    src: String::new(),
    expects: vec![],
  };
  let mut constructs: Vec<&'static str> = vec![];
  // (no BOM here: the graph strips it while decoding, before analysis - C20;
  // deno_ast refuses text that still carries one)
  let shebang = rng.chance(1, 8);
  if shebang {
    b.push("#!/usr/bin/env -S deno run 😀\n");
  }
  // ---- leading comments (before the first statement)
  let n_lead = rng.below(4);
  let mut had_self_types = false;
  let mut had_jsx = false;
  for _ in 0..n_lead {
    match rng.below(7) {
      0 => {
        let v = *rng.pick(NAMES);
        if v.contains('\'') || v.contains('"') {
          continue;
        }
        b.push("/// <reference path=");
        let q = if rng.coin() { "\"" } else { "'" };
        b.token(&format!("{}{}{}", q, v, q), v, "ts-reference-path");
        b.push(" />\n");
        constructs.push("reference-path");
      }
      1 => {
        let v = *rng.pick(NAMES);
        if v.contains('\'') || v.contains('"') {
          continue;
        }
        b.push("///   <reference   types  =  ");
        b.token(&format!("\"{}\"", v), v, "ts-reference-types");
        b.push("/>\r\n");
        constructs.push("reference-types");
      }
      2 if !lang.typed() && !had_self_types => {
        let v = *rng.pick(NAMES);
        if v.contains('\'') || v.contains('"') {
          continue;
        }
        had_self_types = true;
        if rng.coin() {
          b.push("// @ts-self-types=");
          b.token(&format!("\"{}\"", v), v, "ts-self-types");
          b.push("\n");
        } else {
          b.push("/* @ts-self-types=");
          b.token(&format!("'{}'", v), v, "ts-self-types");
          b.push(" */\n");
        }
        constructs.push("ts-self-types");
      }
      3 if matches!(lang, Lang::Jsx | Lang::Tsx) && !had_jsx => {
        had_jsx = true;
        let v = quoteless_name(rng);
        b.push("/** @jsxImportSource ");
        b.token(v, v, "jsx-import-source");
        b.push(" */\n");
        constructs.push("jsx-import-source");
        if rng.coin() {
          let v2 = quoteless_name(rng);
          b.push("/* @jsxImportSourceTypes ");
          b.token(v2, v2, "jsx-import-source-types");
          b.push(" */\r\n");
          constructs.push("jsx-import-source-types");
        }
      }
      4 => b.push("// ordinary leading comment é😀\n"),
      5 => b.push("/* @jsxImportSourceNot ./decoy */\n"),
      _ => b.push("// @ts-self-types-not=\"./decoy.d.ts\"\n"),
    }
  }
  // ---- statements (one program in twelve has none at all: only the
  // leading comments, possibly after a shebang)
  let no_statements = forced.is_none() && rng.chance(1, 12);
  let n = match forced {
    Some(_) => 1,
    None if no_statements => 0,
    None => rng.range(1, 9),
  };
  let all_kinds = 28usize;
  let mut stmt_no = 0;
  for _ in 0..n {
    stmt_no += 1;
    let kind = forced.unwrap_or_else(|| rng.below(all_kinds));
    let pre = trivia(rng, true);
    b.push(&pre);
    // optional @deno-types / @ts-types pragma directly before import-like statements
    let mut pragma = |b: &mut Builder, rng: &mut Rng, constructs: &mut Vec<&'static str>| {
      // a comment on the same line as the end of the previous statement is
      // that statement's trailing comment; pragmas live on their own line
      if !b.src.is_empty() && !b.src.ends_with('\n') {
        b.push("\n");
      }
      match rng.below(7) {
        0 => {
          let v = *rng.pick(NAMES);
          if v.contains('\'') || v.contains('"') {
            return;
          }
          b.push("// @deno-types=");
          b.token(&format!("\"{}\"", v), v, "types-pragma");
          b.push("\n");
          constructs.push("deno-types");
        }
        1 => {
          let v = quoteless_name(rng);
          b.push("// @deno-types=");
          b.token(v, v, "types-pragma");
          b.push("\r\n");
          constructs.push("deno-types-quoteless");
        }
        2 => {
          let v = *rng.pick(NAMES);
          if v.contains('\'') || v.contains('"') {
            return;
          }
          b.push("/* @ts-types=");
          b.token(&format!("'{}'", v), v, "types-pragma");
          b.push(" */ ");
          constructs.push("ts-types");
        }
        _ => {}
      }
    };
    let name = *rng.pick(NAMES);
    let (lit, val) = string_literal(rng, name);
    let t = |rng: &mut Rng| trivia(rng, false);
    match kind {
      0 => {
        pragma(&mut b, rng, &mut constructs);
        b.push(&format!("import d{}{} from{}", stmt_no, t(rng), t(rng)));
        b.token(&lit, &val, "static");
        b.detail("Import", false, "none");
        b.push(";\n");
        constructs.push("import-default");
      }
      1 => {
        pragma(&mut b, rng, &mut constructs);
        b.push(&format!("import {{ a as b{} }} from ", stmt_no));
        b.token(&lit, &val, "static");
        b.detail("Import", false, "none");
        b.push("\n");
        constructs.push("import-named");
      }
      2 => {
        b.push("import ");
        b.token(&lit, &val, "static");
        b.detail("Import", true, "none");
        b.push(";");
        constructs.push("import-side-effect");
      }
      3 => {
        pragma(&mut b, rng, &mut constructs);
        b.push(&format!("import * as ns{} from ", stmt_no));
        b.token(&lit, &val, "static");
        b.detail("Import", false, "none");
        b.push(";\r\n");
        constructs.push("import-namespace");
      }
      4 => {
        pragma(&mut b, rng, &mut constructs);
        b.push(&format!("export {{ e{} }} from ", stmt_no));
        b.token(&lit, &val, "static");
        b.detail("Export", false, "none");
        b.push(";\n");
        constructs.push("export-named-from");
      }
      5 => {
        b.push("export * from ");
        b.token(&lit, &val, "static");
        b.detail("Export", false, "none");
        b.push(";\n");
        constructs.push("export-star");
      }
      6 => {
        b.push(&format!("export * as n{} from ", stmt_no));
        b.token(&lit, &val, "static");
        b.detail("Export", false, "none");
        b.push(";\n");
        constructs.push("export-star-as");
      }
      7 if lang.typed() => {
        b.push(&format!("import type {{ T{} }} from ", stmt_no));
        b.token(&lit, &val, "static");
        b.detail("ImportType", false, "none");
        b.push(";\n");
        constructs.push("import-type");
      }
      8 if lang.typed() => {
        b.push(&format!("export type {{ U{} }} from ", stmt_no));
        b.token(&lit, &val, "static");
        b.detail("ExportType", false, "none");
        b.push(";\n");
        constructs.push("export-type");
      }
      9 if lang.typed() && lang != Lang::Dts => {
        b.push(&format!("import r{} = require(", stmt_no));
        b.token(&lit, &val, "static");
        b.detail("ImportEquals", false, "none");
        b.push(");\n");
        constructs.push("import-equals");
      }
      10 if lang.typed() && lang != Lang::Dts => {
        b.push(&format!("export import x{} = require(", stmt_no));
        b.token(&lit, &val, "static");
        b.detail("ExportEquals", false, "none");
        b.push(");\n");
        constructs.push("export-import-equals");
      }
      11 if lang != Lang::Dts => {
        // at the top level or nested in a container whose body has to be
        // traversed to find it
        let container = rng.below(6);
        let (open, close, awaited): (String, &str, bool) = match container {
          1 if lang.typed() => (format!("namespace NsD{} {{ export ", stmt_no), " }\n", false),
          2 if lang.typed() => ("declare global { interface Marker { a: 1 } }\n".to_string(), "", true),
          3 => (format!("function fd{}() {{ ", stmt_no), " }\n", false),
          4 => (format!("class Cd{} {{ m() {{ ", stmt_no), " } }\n", false),
          5 if lang.typed() => (format!("module ModD{} {{ namespace Inner {{ ", stmt_no), " } }\n", false),
          _ => (String::new(), "", true),
        };
        b.push(&open);
        b.push(&format!("const dy{} = {}import({}", stmt_no, if awaited { "await " } else { "" }, t(rng)));
        b.token(&lit, &val, "dynamic");
        b.detail("Import", false, "none");
        b.push(&format!("{});\n", t(rng)));
        b.push(close);
        constructs.push(match container {
          1 if lang.typed() => "dynamic-import-in-namespace",
          3 => "dynamic-import-in-function",
          4 => "dynamic-import-in-class",
          5 if lang.typed() => "dynamic-import-in-nested-module",
          _ => "dynamic-import",
        });
      }
      12 if lang != Lang::Dts => {
        // no-substitution template
        if name.contains('`') || name.contains('$') || name.contains('\\') {
          continue;
        }
        // escapes are legal in templates too; the cooked value is the specifier
        let mut tl = String::from("`");
        for ch in name.chars() {
          match rng.below(10) {
            0 if ch.is_ascii() => tl.push_str(&format!("\\x{:02x}", ch as u32)),
            1 if (ch as u32) <= 0xFFFF => tl.push_str(&format!("\\u{:04x}", ch as u32)),
            2 => tl.push_str(&format!("\\u{{{:x}}}", ch as u32)),
            _ => tl.push(ch),
          }
        }
        tl.push('`');
        b.push(&format!("const dt{} = import(", stmt_no));
        b.token(&tl, name, "dynamic");
        b.push(");\n");
        constructs.push("dynamic-import-template");
      }
      13 if lang != Lang::Dts => {
        b.push(&format!("const dj{} = import(", stmt_no));
        b.token(&lit, &val, "dynamic");
        match rng.below(4) {
          0 => {
            b.detail("Import", false, "type=?");
            b.push(", { with: { type: someVariable } });\n");
          }
          1 => {
            b.detail("Import", false, "unknown");
            b.push(", { with: someVariable });\n");
          }
          2 => {
            b.detail("Import", false, "type=json");
            b.push(", { \"with\": { \"type\": 'json', }, });\n");
          }
          _ => {
            b.detail("Import", false, "type=json");
            b.push(", { with: { type: \"json\" } });\n");
          }
        }
        constructs.push("dynamic-import-attributes");
      }
      14 if lang.typed() => {
        let container = rng.below(4);
        let (open, close) = match container {
          1 => (format!("namespace NsT{} {{ export ", stmt_no), " }\n"),
          2 => ("declare global { ".to_string(), " }\n"),
          3 => (format!("declare namespace DnT{}.Deep {{ ", stmt_no), " }\n"),
          _ => (String::new(), ""),
        };
        b.push(&open);
        b.push(&format!("type I{} = import(", stmt_no));
        b.token(&lit, &val, "static");
        b.detail("ImportType", false, "none");
        b.push(").Foo;\n");
        b.push(close);
        constructs.push(match container {
          1 => "import-type-expression-in-namespace",
          2 => "import-type-expression-in-declare-global",
          3 => "import-type-expression-in-declare-namespace",
          _ => "import-type-expression",
        });
      }
      15 if lang.typed() => {
        let in_global = rng.chance(1, 3);
        if in_global {
          b.push("declare global { ");
          b.push(&format!("const tv{}: typeof import(", stmt_no));
        } else {
          b.push(&format!("declare const tv{}: typeof import(", stmt_no));
        }
        b.token(&lit, &val, "static");
        b.detail("ImportType", false, "none");
        b.push(");\n");
        if in_global {
          b.push(" }\n");
        }
        constructs.push(if in_global { "typeof-import-in-declare-global" } else { "typeof-import" });
      }
      16 => {
        b.push(&format!("import j{} from ", stmt_no));
        b.token(&lit, &val, "static");
        if rng.coin() {
          b.detail("Import", false, "type=json");
          b.push(" with { type: \"json\" };\n");
        } else {
          b.detail("Import", false, "lang=x,type=text");
          b.push(" with { \"type\": 'text', lang: \"x\" };\n");
        }
        constructs.push("import-attributes");
      }
      17 if lang.plain_js() => {
        b.push("/** @type {import(");
        b.token(&format!("\"{}\"", name), name, "jsdoc");
        b.push(&format!(").X{}}} */\nlet jd{};\n", stmt_no, stmt_no));
        constructs.push("jsdoc-import-type");
      }
      18 if lang.plain_js() => {
        b.push("/**\n * é😀 @import { A, B } from ");
        b.token(&format!("'{}'", name.replace('\'', "")), &name.replace('\'', ""), "jsdoc");
        b.push(&format!("\n */\nlet ji{};\n", stmt_no));
        constructs.push("jsdoc-import-tag");
      }
      19 if lang.typed() => {
        b.push("declare module ");
        b.token(&lit, &val, "static");
        b.detail("MaybeTsModuleAugmentation", false, "none");
        b.push(" { export const z: number; }\n");
        constructs.push("declare-module");
      }
      20 if lang != Lang::Dts => {
        // non-analysable dynamic import: declares nothing
        b.push(&format!("const dn{} = import(someVariable + \"./decoy.ts\");\n", stmt_no));
        constructs.push("dynamic-import-expression");
      }
      22 if lang != Lang::Dts => {
        // a plain `require("…")` call
        b.push(&format!("const rq{} = require({}", stmt_no, t(rng)));
        b.token(&lit, &val, "dynamic");
        b.detail("Require", false, "none");
        b.push(");\n");
        constructs.push("require-call");
      }
      23 if lang != Lang::Dts => {
        // a dependency call nested in the (non-analysable) argument of another one
        b.push(&format!("const nn{} = import((await import(", stmt_no));
        b.token(&lit, &val, "dynamic");
        b.detail("Import", false, "none");
        b.push(")).default.entry);\n");
        constructs.push("dynamic-import-nested-in-import-argument");
      }
      24 if lang != Lang::Dts => {
        b.push(&format!("const rr{} = require(require(", stmt_no));
        b.token(&lit, &val, "dynamic");
        b.detail("Require", false, "none");
        b.push(").join(\"a\", \"b\"));\n");
        constructs.push("require-nested-in-require-argument");
      }
      25 if lang != Lang::Dts => {
        // a dependency call nested in the options argument of an analysable one
        let name2 = *rng.pick(NAMES);
        let (lit2, val2) = string_literal(rng, name2);
        b.push(&format!("const no{} = import(", stmt_no));
        b.token(&lit, &val, "dynamic");
        b.detail("Import", false, "unknown");
        b.push(", (await import(");
        b.token(&lit2, &val2, "dynamic");
        b.detail("Import", false, "none");
        b.push(")).default.options);\n");
        constructs.push("dynamic-import-nested-in-import-options");
      }
      26 if lang != Lang::Dts => {
        let defer = rng.coin();
        b.push(&format!("const dp{} = import.{}(", stmt_no, if defer { "defer" } else { "source" }));
        b.token(&lit, &val, "dynamic");
        b.detail(if defer { "ImportDefer" } else { "ImportSource" }, false, "none");
        b.push(");\n");
        constructs.push("dynamic-import-phase");
      }
      27 => {
        let defer = rng.coin();
        if defer {
          b.push(&format!("import defer * as df{} from ", stmt_no));
        } else {
          b.push(&format!("import source sr{} from ", stmt_no));
        }
        b.token(&lit, &val, "static");
        b.detail(if defer { "ImportDefer" } else { "ImportSource" }, false, "none");
        b.push(";\n");
        constructs.push("import-phase");
      }
      _ => {
        b.push(&format!("const plain{} = \"import './decoy.ts'\";\n", stmt_no));
        constructs.push("plain-statement");
      }
    }
  }
  if no_statements {
    constructs.push(if shebang { "no-statements-after-shebang" } else { "no-statements" });
  } else {
    b.push("export {};\n");
  }
  if !no_statements && rng.chance(1, 4) {
    let v = *rng.pick(&["./out.js.map", "https://cdn.test/m.js.map", "./ü.map"]);
    b.push("//# sourceMappingURL=");
    b.token(v, v, "source-map-url");
    if rng.coin() {
      b.push("\n");
    }
    constructs.push("source-mapping-url");
  }
  Program {
    lang_name: format!("{:?}", lang),
    media: lang.media(),
    specifier: url(&format!("file:///gen/mod.{}", lang.ext())),
    source: b.src,
    expects: b.expects,
    constructs,
  }
}

/// independent (line, character) -> byte offset; character = scalar values
/// since the start of the line, line = number of '\n' before the offset
pub fn pos_to_byte(text: &str, p: &Position) -> Option<usize> {
  let mut line_start = 0usize;
  let mut line = 0usize;
  if p.line > 0 {
    for (i, b) in text.bytes().enumerate() {
      if b == b'\n' {
        line += 1;
        if line == p.line {
          line_start = i + 1;
          break;
        }
      }
    }
    if line != p.line {
      return None;
    }
  }
  let mut chars = 0usize;
  for (off, _ch) in text[line_start..].char_indices() {
    if chars == p.character {
      return Some(line_start + off);
    }
    chars += 1;
  }
  if chars == p.character {
    return Some(text.len());
  }
  None
}

#[derive(Clone, Debug, PartialEq, Eq, PartialOrd, Ord)]
pub struct Reported {
  pub start: usize,
  pub slice: String,
  pub value: String,
  pub category: &'static str,
  pub detail: String,
}

fn attrs_text(a: &deno_graph::analysis::ImportAttributes) -> String {
  use deno_graph::analysis::ImportAttribute;
  use deno_graph::analysis::ImportAttributes;
  match a {
    ImportAttributes::None => "none".to_string(),
    ImportAttributes::Unknown => "unknown".to_string(),
    ImportAttributes::Known(m) => {
      let mut v: Vec<String> = m
        .iter()
        .map(|(k, v)| match v {
          ImportAttribute::Known(x) => format!("{}={}", k, x),
          ImportAttribute::Unknown => format!("{}=?", k),
        })
        .collect();
      v.sort();
      v.join(",")
    }
  }
}

fn flatten(info: &ModuleInfo, text: &str) -> Result<Vec<Reported>, String> {
  let mut out = vec![];
  let mut add_d = |r: &PositionRange, value: &str, category: &'static str, detail: String| -> Result<(), String> {
    let s = pos_to_byte(text, &r.start).ok_or(format!("start {:?} outside text", r.start))?;
    let e = pos_to_byte(text, &r.end).ok_or(format!("end {:?} outside text", r.end))?;
    if e < s || !text.is_char_boundary(s) || !text.is_char_boundary(e) {
      return Err(format!("range {:?} is inverted or not on char boundaries", r));
    }
    out.push(Reported {
      start: s,
      slice: text[s..e].to_string(),
      value: value.to_string(),
      category,
      detail,
    });
    Ok(())
  };
  macro_rules! add {
    ($r:expr, $v:expr, $c:expr) => {
      add_d($r, $v, $c, String::new())
    };
  }
  for d in &info.dependencies {
    match d {
      DependencyDescriptor::Static(s) => {
        add_d(
          &s.specifier_range,
          &s.specifier,
          "static",
          format!("kind={:?};side_effect={};attrs={}", s.kind, s.is_side_effect, attrs_text(&s.import_attributes)),
        )?;
        if let Some(t) = &s.types_specifier {
          add!(&t.range, &t.text, "types-pragma")?;
        }
      }
      DependencyDescriptor::Dynamic(dy) => {
        match &dy.argument {
          DynamicArgument::String(t) => add_d(
            &dy.argument_range,
            t,
            "dynamic",
            format!("kind={:?};side_effect=false;attrs={}", dy.kind, attrs_text(&dy.import_attributes)),
          )?,
          DynamicArgument::Template(_) => add!(&dy.argument_range, "<template>", "dynamic-template")?,
          DynamicArgument::Expr => {}
        }
        if let Some(t) = &dy.types_specifier {
          add!(&t.range, &t.text, "types-pragma")?;
        }
      }
    }
  }
  for r in &info.ts_references {
    match r {
      TypeScriptReference::Path(s) => add!(&s.range, &s.text, "ts-reference-path")?,
      TypeScriptReference::Types { specifier, .. } => {
        add!(&specifier.range, &specifier.text, "ts-reference-types")?
      }
    }
  }
  if let Some(s) = &info.self_types_specifier {
    add!(&s.range, &s.text, "ts-self-types")?;
  }
  if let Some(s) = &info.jsx_import_source {
    add!(&s.range, &s.text, "jsx-import-source")?;
  }
  if let Some(s) = &info.jsx_import_source_types {
    add!(&s.range, &s.text, "jsx-import-source-types")?;
  }
  for j in &info.jsdoc_imports {
    add!(&j.specifier.range, &j.specifier.text, "jsdoc")?;
  }
  if let Some(s) = &info.source_map_url {
    add!(&s.range, &s.text, "source-map-url")?;
  }
  out.sort();
  Ok(out)
}

fn check_program(p: &Program, acc: &mut Acc, idx: u64) {
  acc.eval();
  let analyzer = ParserModuleAnalyzer::default();
  let src: Arc<str> = Arc::from(p.source.as_str());
  let w = |d: Value| {
    json!({"language": p.lang_name, "source": p.source, "constructs": p.constructs,
      "expected": p.expects.iter().map(|e| json!([e.start, e.token, e.value, e.category])).collect::<Vec<_>>(), "detail": d})
  };
  let info = match catch(|| analyzer.analyze_sync(&p.specifier, src.clone(), p.media)) {
    Err(pn) => {
      acc.violation(format!("panic/{}", pn.signature()), pn.message.clone(), w(json!({})));
      return;
    }
    Ok(Err(e)) => {
      // the generator is supposed to emit parsable programs
      acc.count("generator_unparsable");
      acc.set_add("unparsable_examples", format!("{:?}: {}", p.constructs, e.to_string().lines().next().unwrap_or("")));
      return;
    }
    Ok(Ok(i)) => i,
  };
  if !p.expects.is_empty() {
    acc.nontrivial(idx);
  }
  for c in &p.constructs {
    acc.count(&format!("construct:{}", c));
  }
  if !p.source.is_ascii() {
    acc.count("programs_with_non_ascii");
  }
  if p.source.contains("\r\n") {
    acc.count("programs_with_crlf");
  }
  let reported = match flatten(&info, &p.source) {
    Ok(r) => r,
    Err(e) => {
      acc.violation("range/outside-text-or-not-on-char-boundary", e, w(json!({})));
      return;
    }
  };
  let mut expected = p.expects.clone();
  expected.sort();
  // bijection, in source order
  let cat_of = |p: &Program, e: &Expect| -> &'static str {
    let _ = p;
    e.category
  };
  if reported.len() != expected.len() {
    // which side has extras?
    let extra: Vec<&Reported> = reported
      .iter()
      .filter(|r| !expected.iter().any(|e| e.start == r.start))
      .collect();
    let missing: Vec<&Expect> = expected
      .iter()
      .filter(|e| !reported.iter().any(|r| e.start == r.start))
      .collect();
    let what = if !missing.is_empty() {
      format!("missed/{}", missing[0].category)
    } else if !extra.is_empty() {
      format!("extra/{}", extra[0].category)
    } else {
      "duplicate".to_string()
    };
    acc.violation(
      format!("dependency-set/{}", what),
      format!(
        "expected {} dependencies, analysis reported {}; missing {:?}; extra {:?}",
        expected.len(),
        reported.len(),
        missing.iter().map(|e| (&e.token, e.category)).collect::<Vec<_>>(),
        extra.iter().map(|r| (&r.slice, r.category)).collect::<Vec<_>>()
      ),
      w(json!({"reported": reported.iter().map(|r| json!([r.start, r.slice, r.value, r.category])).collect::<Vec<_>>()})),
    );
    return;
  }
  for (e, r) in expected.iter().zip(reported.iter()) {
    acc.count("ranges_checked");
    let cat = cat_of(p, e);
    let cat_ok = cat == r.category
      || (cat == "dynamic" && r.category == "dynamic")
      || (cat == "static" && r.category == "static");
    if r.start != e.start || r.slice != e.token {
      let nonascii_before = !p.source[..e.start].is_ascii();
      let nonascii_inside = !e.token.is_ascii();
      acc.violation(
        format!(
          "range/{}/{}",
          cat,
          if nonascii_inside {
            "non-ascii-specifier"
          } else if nonascii_before {
            "non-ascii-before"
          } else {
            "ascii"
          }
        ),
        format!(
          "range maps to {:?} at byte {}, the specifier token is {:?} at byte {}",
          r.slice, r.start, e.token, e.start
        ),
        w(json!({})),
      );
    } else if r.value != e.value {
      acc.violation(
        format!("specifier-text/{}", cat),
        format!("reported text {:?}, unescaped value {:?}", r.value, e.value),
        w(json!({})),
      );
    } else if let Some(d) = e.detail.as_ref().filter(|d| **d != r.detail) {
      acc.violation(
        format!("descriptor/{}/{}", cat, {
          let diff: Vec<&str> = d.split(';').zip(r.detail.split(';')).filter(|(a, b)| a != b).map(|(a, _)| a.split('=').next().unwrap_or("")).collect();
          diff.join("+")
        }),
        format!("{:?}: expected {}, analysis reported {}", e.token, d, r.detail),
        w(json!({})),
      );
    } else if !cat_ok {
      acc.violation(
        format!("category/{}-reported-as-{}", cat, r.category),
        format!("{:?}", e.token),
        w(json!({})),
      );
    }
  }
  // position lookup on a built module
  position_lookup(p, acc, &w);
}

fn position_lookup(p: &Program, acc: &mut Acc, w: &dyn Fn(Value) -> Value) {
  let analyzer = ParserModuleAnalyzer::default();
  let module = crate::sched::block_on(deno_graph::parse_module(deno_graph::ParseModuleOptions {
    graph_kind: deno_graph::GraphKind::All,
    specifier: p.specifier.clone(),
    maybe_headers: None,
    mtime: None,
    content: Arc::from(p.source.as_bytes().to_vec()),
    file_system: &deno_graph::source::NullFileSystem,
    jsr_url_provider: Default::default(),
    maybe_resolver: None,
    module_analyzer: &analyzer,
  }));
  let Ok(module) = module else { return };
  let deps = module.dependencies();
  // all resolution ranges
  let mut ranges: Vec<(String, PositionRange)> = vec![];
  for (text, d) in deps {
    for r in [&d.maybe_code, &d.maybe_type] {
      if let Some(range) = r.maybe_range() {
        ranges.push((text.clone(), range.range));
      }
    }
  }
  for (text, r) in &ranges {
    if r.start.line != r.end.line {
      continue;
    }
    for ch in r.start.character.saturating_sub(1)..=r.end.character + 1 {
      let pos = Position::new(r.start.line, ch);
      let inside = ch >= r.start.character && ch <= r.end.character;
      acc.count("position_probes");
      let hits: Vec<&String> = deps
        .iter()
        .filter(|(_, d)| d.includes(pos).is_some())
        .map(|(t, _)| t)
        .collect();
      if inside && !hits.contains(&text) {
        let edge = if ch == r.start.character {
          "start"
        } else if ch == r.end.character {
          "end"
        } else {
          "inside"
        };
        acc.violation(
          format!("position-lookup/miss-at-{}", edge),
          format!("position {}:{} is inside the range of {:?} but includes() does not return it", r.start.line, ch, text),
          w(json!({})),
        );
      }
      if !inside {
        // must not claim to contain a position outside (unless another range
        // of the same dependency contains it)
        let d = &deps[text];
        if let Some(found) = d.includes(pos) {
          let fr = found.range;
          let truly = pos.line == fr.start.line
            && pos.character >= fr.start.character
            && pos.character <= fr.end.character;
          if !truly {
            acc.violation(
              "position-lookup/false-hit",
              format!("includes({}:{}) returned {:?}", pos.line, pos.character, fr),
              w(json!({})),
            );
          }
        }
      }
    }
  }
}

/// Weaker but independent oracle for the repository's spec corpus.
fn corpus(acc: &mut Acc) {
  let mut files = vec![];
  for dir in ["/repo/tests/specs/graph", "/repo/tests/specs/symbols"] {
    let mut stack = vec![std::path::PathBuf::from(dir)];
    while let Some(d) = stack.pop() {
      let Ok(rd) = std::fs::read_dir(&d) else { continue };
      for e in rd.flatten() {
        let p = e.path();
        if p.is_dir() {
          stack.push(p);
        } else if p.extension().is_some_and(|x| x == "txt") {
          files.push(p);
        }
      }
    }
  }
  files.sort();
  for f in files {
    let Ok(text) = std::fs::read_to_string(&f) else { continue };
    let mut cur: Option<(String, String)> = None;
    let mut sources: Vec<(String, String)> = vec![];
    for line in text.split('\n') {
      if let Some(spec) = line.strip_prefix("# ") {
        if let Some(c) = cur.take() {
          sources.push(c);
        }
        if spec.contains("<=") {
          continue;
        }
        cur = Some((spec.trim().to_string(), String::new()));
      } else if line.starts_with("HEADERS: ") {
      } else if let Some((_, body)) = cur.as_mut() {
        if !body.is_empty() {
          body.push('\n');
        }
        body.push_str(line);
      }
    }
    if let Some(c) = cur.take() {
      sources.push(c);
    }
    for (spec, body) in sources {
      let name = spec.strip_prefix("cache:").unwrap_or(&spec).to_string();
      let u = if name.contains("://") { name.clone() } else { format!("file:///{}", name) };
      let Ok(specifier) = ModuleSpecifier::parse(&u) else { continue };
      let media = MediaType::from_specifier(&specifier);
      if !matches!(
        media,
        MediaType::JavaScript | MediaType::Jsx | MediaType::Mjs | MediaType::TypeScript | MediaType::Tsx | MediaType::Mts | MediaType::Dts
      ) {
        continue;
      }
      let analyzer = ParserModuleAnalyzer::default();
      let Ok(Ok(info)) = catch(|| analyzer.analyze_sync(&specifier, Arc::from(body.as_str()), media)) else {
        continue;
      };
      acc.count("corpus_sources_analysed");
      let Ok(reported) = flatten(&info, &body) else {
        acc.violation(
          "corpus/range-outside-text",
          format!("{} in {}", spec, f.display()),
          json!({"file": f.display().to_string(), "specifier": spec}),
        );
        continue;
      };
      for r in reported {
        acc.count("corpus_ranges_checked");
        if r.category == "dynamic-template" {
          continue;
        }
        let quoteless = matches!(r.category, "jsx-import-source" | "jsx-import-source-types" | "source-map-url")
          || (r.category == "types-pragma" && !r.slice.starts_with(['"', '\'']));
        let ok = if quoteless {
          r.slice == r.value
        } else {
          let s = r.slice.as_str();
          s.len() >= 2
            && matches!(s.as_bytes()[0], b'"' | b'\'' | b'`')
            && s.as_bytes()[0] == s.as_bytes()[s.len() - 1]
            && (s[1..s.len() - 1] == r.value || s[1..s.len() - 1].contains('\\'))
        };
        if !ok {
          acc.violation(
            format!("corpus/range/{}", r.category),
            format!("{} in {}: range slices to {:?}, specifier {:?}", spec, f.display(), r.slice, r.value),
            json!({"file": f.display().to_string(), "specifier": spec}),
          );
        }
      }
    }
  }
}

pub fn run(tier: Tier, seed: u64) -> i32 {
  let mut rep = Report::new("C08", tier, seed);
  rep.rule = "program = optional BOM + optional shebang + leading pragmas (reference path/types, @ts-self-types, @jsxImportSource(+Types), decoys) + 1-9 statements of 28 construct kinds \
    (default/named/namespace/side-effect imports, export-from forms, import/export type, import-equals, dynamic import with string / template / attributes / non-analysable argument, import type expressions, typeof import, \
    import attributes, JSDoc import types and @import tags, declare module, plain statements with decoy text), optionally preceded by @deno-types (quoted and quoteless) / @ts-types pragmas, separated by trivia \
    (block/line comments with decoy imports, accented, astral and combining characters, U+2028, CRLF/LF, tabs), string literals with \\x, \\u, \\u{} and surrogate-pair escapes and both quote styles, optional trailing sourceMappingURL. \
    Also every single-construct program. Oracle: bijection in source order between the tokens the generator wrote and the analyser's dependencies; each reported range, mapped back by an independent (line, scalar column) -> byte mapping, \
    must slice to exactly that token; text equals the unescaped value; Dependency::includes probed at every position of every range and one position outside each end. Corpus: every JS/TS source embedded in tests/specs (weaker slice oracle). \
    non-trivial = program with >= 1 dependency-bearing construct; distinct by program index"
    .into();
  rep.assumptions = vec![
    "column unit = Unicode scalar values since line start, lines split at \\n (deno_ast::SourceTextInfo's documented indexing)".into(),
    "programs the generator emits that do not parse are counted (generator_unparsable) and must stay under 2%".into(),
  ];
  rep.min_nontrivial = tier.pick(5000, 300_000);
  rep.floor("programs_with_non_ascii", 1000);
  rep.floor("programs_with_crlf", 1000);
  rep.floor("corpus_ranges_checked", 200);
  for c in ["import-default", "import-side-effect", "export-star", "import-type", "import-equals", "dynamic-import", "dynamic-import-template",
    "import-type-expression", "typeof-import", "jsdoc-import-type", "jsdoc-import-tag", "declare-module", "reference-path", "reference-types",
    "ts-self-types", "jsx-import-source", "deno-types", "deno-types-quoteless", "ts-types", "source-mapping-url"] {
    rep.floor(&format!("construct:{}", c), 50);
  }
  let n = tier.pick(192000usize, 28800000);
  let chunk = 500;
  let mut acc = par_run(n / chunk, |ci, acc| {
    let mut rng = Rng::new(seed).fork(ci as u64 ^ 0xC08);
    for j in 0..chunk {
      let p = gen_program(&mut rng, None);
      check_program(&p, acc, (ci * chunk + j) as u64);
      if ci == 0 && j < 2 {
        acc.sample(json!({"language": p.lang_name, "source": p.source,
          "expected": p.expects.iter().map(|e| json!([e.start, e.token, e.value, e.category])).collect::<Vec<_>>()}));
      }
    }
  });
  // every single-construct program x many trivia contexts
  let acc2 = par_run(28, |k, acc| {
    let mut rng = Rng::new(seed).fork(k as u64 ^ 0x51);
    for j in 0..tier.pick(60, 600) {
      let p = gen_program(&mut rng, Some(k));
      check_program(&p, acc, (1u64 << 40) + (k * 1000 + j) as u64);
    }
  });
  acc.merge(acc2);
  corpus(&mut acc);
  let unparsable = acc.counters.get("generator_unparsable").copied().unwrap_or(0);
  if unparsable * 50 > acc.evaluations {
    acc.inconclusive.push(format!(
      "{} of {} generated programs did not parse",
      unparsable, acc.evaluations
    ));
  }
  rep.finish(acc)
}
