// C06 — JSR requirements resolve to the specified version (selection function).
use crate::common::*;
use deno_graph::packages::JsrPackageInfo;
use deno_graph::packages::JsrPackageInfoVersion;
use deno_graph::packages::JsrVersionResolver;
use deno_graph::packages::NewestDependencyDate;
use deno_graph::packages::NewestDependencyDateOptions;
use deno_semver::Version;
use deno_semver::package::PackageReq;
use serde_json::json;
use std::collections::HashSet;

pub const UNIVERSE: &[&str] =
  &["0.1.0", "1.0.0", "1.1.0", "1.2.0-beta.1", "1.2.0", "2.0.0", "1.1.5", "0.1.7"];

pub const REQS: &[&str] = &[
  "*", "1", "^1.0.0", "~1.1.0", "1.1.0", "^1.1", "~1", "^0.1.0", "2", "^1.2.0-beta.0",
  "1.2.0-beta.1", "1.x", "3", "0",
];

#[derive(Clone, Copy, Debug, PartialEq, Eq)]
pub enum DateClass {
  Absent,
  Before,
  After,
}

#[derive(Clone, Debug)]
pub struct RegVersion {
  pub v: usize, // index in UNIVERSE
  pub yanked: bool,
  pub date: DateClass,
}

#[derive(Clone, Debug)]
pub struct SelCase {
  pub registry: Vec<RegVersion>,
  pub req: &'static str,
  pub selected: Vec<usize>,
  pub cached: Vec<usize>,
  pub cutoff: bool,
  /// 0 none, 1 exact name excluded, 2 scope prefix excluded, 3 other package excluded,
  /// 4 prefix past the scope that covers the package, 5 prefix past the scope that does not
  pub exclusion: u8,
}

pub fn cutoff_date() -> chrono::DateTime<chrono::Utc> {
  chrono::DateTime::parse_from_rfc3339("2024-06-01T00:00:00Z")
    .unwrap()
    .with_timezone(&chrono::Utc)
}
pub fn date_of(c: DateClass) -> Option<chrono::DateTime<chrono::Utc>> {
  match c {
    DateClass::Absent => None,
    DateClass::Before => Some(
      chrono::DateTime::parse_from_rfc3339("2024-01-01T00:00:00Z")
        .unwrap()
        .with_timezone(&chrono::Utc),
    ),
    DateClass::After => Some(
      chrono::DateTime::parse_from_rfc3339("2024-12-01T00:00:00Z")
        .unwrap()
        .with_timezone(&chrono::Utc),
    ),
  }
}

/// The four-tier rule, written from the property statement.
/// Returns Ok((version index, is_yanked)) or Err(excluded_by_date).
pub fn model_select(c: &SelCase, versions: &[Version]) -> Result<(usize, bool), bool> {
  let req = PackageReq::from_str(&format!("@s/a@{}", c.req)).unwrap();
  let matches = |i: usize| req.version_req.matches(&versions[i]);
  let best = |cands: Vec<usize>| -> Option<usize> {
    cands.into_iter().max_by(|a, b| versions[*a].cmp(&versions[*b]))
  };
  // tier 1: highest already-selected match, date-blind
  if let Some(b) = best(c.selected.iter().cloned().filter(|i| matches(*i)).collect()) {
    let y = c.registry.iter().find(|r| r.v == b).map(|r| r.yanked).unwrap_or(false);
    return Ok((b, y));
  }
  let date_applies = c.cutoff && !matches!(c.exclusion, 1 | 2 | 4);
  let date_ok = |r: &RegVersion| !date_applies || r.date != DateClass::After;
  // preferring already-cached manifests when that mode is on
  if !c.cached.is_empty()
    && let Some(b) = best(
      c.registry
        .iter()
        .filter(|r| !r.yanked && c.cached.contains(&r.v) && matches(r.v) && date_ok(r))
        .map(|r| r.v)
        .collect(),
    )
  {
    return Ok((b, false));
  }
  if let Some(b) = best(
    c.registry
      .iter()
      .filter(|r| !r.yanked && matches(r.v) && date_ok(r))
      .map(|r| r.v)
      .collect(),
  ) {
    return Ok((b, false));
  }
  if let Some(b) = best(
    c.registry
      .iter()
      .filter(|r| r.yanked && matches(r.v) && date_ok(r))
      .map(|r| r.v)
      .collect(),
  ) {
    return Ok((b, true));
  }
  let excluded_by_date = c.registry.iter().any(|r| matches(r.v) && !date_ok(r));
  Err(excluded_by_date)
}

pub fn real_select(c: &SelCase, versions: &[Version]) -> Result<(usize, bool), bool> {
  let info = JsrPackageInfo {
    versions: c
      .registry
      .iter()
      .map(|r| {
        (
          versions[r.v].clone(),
          JsrPackageInfoVersion {
            created_at: date_of(r.date),
            yanked: r.yanked,
          },
        )
      })
      .collect(),
    latest: None,
  };
  let mut opts = NewestDependencyDateOptions::default();
  if c.cutoff {
    opts.date = Some(NewestDependencyDate(cutoff_date()));
  }
  match c.exclusion {
    1 => {
      opts.exclude_jsr_pkgs.insert("@s/a".into());
    }
    2 => opts.exclude_jsr_pkg_prefixes.push("@s/".into()),
    3 => {
      opts.exclude_jsr_pkgs.insert("@s/ab".into());
      opts.exclude_jsr_pkg_prefixes.push("@t/".into());
    }
    // prefixes that reach past the scope: "@s/a" covers @s/a (and @s/ab),
    // "@s/ab" does not cover @s/a
    4 => opts.exclude_jsr_pkg_prefixes.push("@s/a".into()),
    5 => opts.exclude_jsr_pkg_prefixes.push("@s/ab".into()),
    _ => {}
  }
  let resolver = JsrVersionResolver {
    newest_dependency_date_options: opts,
  };
  let req = PackageReq::from_str(&format!("@s/a@{}", c.req)).unwrap();
  let pr = resolver.get_for_package(&"@s/a".into(), &info);
  let existing: Vec<Version> = c.selected.iter().map(|i| versions[*i].clone()).collect();
  let cached: HashSet<Version> = c.cached.iter().map(|i| versions[*i].clone()).collect();
  match pr.resolve_version(&req, existing.iter(), &cached) {
    Ok(r) => {
      let idx = versions.iter().position(|v| v == r.version).unwrap();
      Ok((idx, r.is_yanked))
    }
    Err(e) => Err(e.newest_dependency_date.is_some()),
  }
}

fn case_json(c: &SelCase) -> serde_json::Value {
  json!({
    "registry": c.registry.iter().map(|r| json!([UNIVERSE[r.v], r.yanked, format!("{:?}", r.date)])).collect::<Vec<_>>(),
    "req": c.req,
    "selected": c.selected.iter().map(|i| UNIVERSE[*i]).collect::<Vec<_>>(),
    "cached": c.cached.iter().map(|i| UNIVERSE[*i]).collect::<Vec<_>>(),
    "cutoff": c.cutoff, "exclusion": c.exclusion,
  })
}

fn check_case(c: &SelCase, versions: &[Version], acc: &mut Acc, idx: u64) {
  acc.eval();
  let m = model_select(c, versions);
  let r = match catch(|| real_select(c, versions)) {
    Ok(r) => r,
    Err(p) => {
      acc.violation(format!("panic/{}", p.signature()), p.message.clone(), case_json(c));
      return;
    }
  };
  let req = PackageReq::from_str(&format!("@s/a@{}", c.req)).unwrap();
  let n_match = c
    .registry
    .iter()
    .filter(|r| req.version_req.matches(&versions[r.v]))
    .count();
  if n_match >= 2 {
    acc.nontrivial(idx);
  }
  match &m {
    Ok((_, true)) => acc.count("expected:yanked-fallback"),
    Ok(_) => acc.count("expected:version"),
    Err(true) => acc.count("expected:not-found-excluded-by-date"),
    Err(false) => acc.count("expected:not-found"),
  }
  if m != r {
    let tier = if c
      .selected
      .iter()
      .any(|i| req.version_req.matches(&versions[*i]))
    {
      "already-selected"
    } else if !c.cached.is_empty() {
      "cached-preferred"
    } else {
      "registry"
    };
    let what = match (&m, &r) {
      (Ok((a, _)), Ok((b, _))) if a != b => "version",
      (Ok(_), Ok(_)) => "yanked-flag",
      (Ok(_), Err(_)) => "not-found-but-expected-version",
      (Err(_), Ok(_)) => "version-but-expected-not-found",
      (Err(_), Err(_)) => "date-exclusion-flag",
    };
    acc.violation(
      format!(
        "selection/{}/{}/cutoff={}/excl={}",
        what, tier, c.cutoff, c.exclusion
      ),
      format!("expected {:?} got {:?}", m, r),
      case_json(c),
    );
  }
}

pub fn run_selection(tier: Tier, seed: u64, acc_out: &mut Acc) {
  let versions: Vec<Version> = UNIVERSE
    .iter()
    .map(|v| Version::parse_standard(v).unwrap())
    .collect();
  // exhaustive block over a 4-version sub-universe
  let sub = [1usize, 2, 3, 4]; // 1.0.0 1.1.0 1.2.0-beta.1 1.2.0
  let mut configs: Vec<Vec<RegVersion>> = vec![vec![]];
  for &v in &sub {
    let mut next = vec![];
    for c in &configs {
      next.push(c.clone()); // absent
      for yanked in [false, true] {
        for date in [DateClass::Absent, DateClass::Before, DateClass::After] {
          let mut c2 = c.clone();
          c2.push(RegVersion { v, yanked, date });
          next.push(c2);
        }
      }
    }
    configs = next;
  }
  let subsets: Vec<Vec<usize>> = (0..16u32)
    .map(|m| sub.iter().enumerate().filter(|(i, _)| m >> i & 1 == 1).map(|(_, v)| *v).collect())
    .collect();
  let stride = tier.pick(37usize, 1);
  let total = configs.len() * REQS.len() * 16 * 16 * 2 * 6;
  let chunk = 4096usize;
  let n_chunks = total.div_ceil(chunk);
  let offset = (seed as usize) % stride;
  let acc = par_run(n_chunks, |ci, acc| {
    let lo = ci * chunk;
    let hi = ((ci + 1) * chunk).min(total);
    for idx in lo..hi {
      if idx % stride != offset {
        continue;
      }
      let mut k = idx;
      let excl = (k % 6) as u8;
      k /= 6;
      let cutoff = k % 2 == 1;
      k /= 2;
      let cached = &subsets[k % 16];
      k /= 16;
      let selected = &subsets[k % 16];
      k /= 16;
      let req = REQS[k % REQS.len()];
      k /= REQS.len();
      let registry = &configs[k];
      let c = SelCase {
        registry: registry.clone(),
        req,
        selected: selected.clone(),
        cached: cached.clone(),
        cutoff,
        exclusion: excl,
      };
      check_case(&c, &versions, acc, idx as u64);
      if idx % 500_003 == 0 {
        acc.sample(case_json(&c));
      }
    }
  });
  acc_out.merge(acc);
  acc_out.count_n("exhaustive_block_size", total as u64);
  // random block over the full universe (8 versions, selected versions may be
  // outside the registry: lockfile-seeded)
  let n_rand = tier.pick(1200000usize, 24000000);
  let acc = par_run(n_rand / 1000, |ci, acc| {
    let mut rng = Rng::new(seed).fork(ci as u64 ^ 0xC06);
    for j in 0..1000 {
      let mut registry = vec![];
      for v in 0..UNIVERSE.len() {
        if rng.chance(3, 5) {
          registry.push(RegVersion {
            v,
            yanked: rng.chance(1, 3),
            date: *rng.pick(&[DateClass::Absent, DateClass::Before, DateClass::After]),
          });
        }
      }
      let pick_set = |rng: &mut Rng, p: u32| -> Vec<usize> {
        (0..UNIVERSE.len()).filter(|_| rng.chance(p, 10)).collect()
      };
      let c = SelCase {
        registry,
        req: *rng.pick(REQS),
        selected: pick_set(&mut rng, 2),
        cached: pick_set(&mut rng, 3),
        cutoff: rng.coin(),
        exclusion: rng.below(6) as u8,
      };
      check_case(&c, &versions, acc, hash64(&(ci, j, "rand")));
    }
  });
  acc_out.merge(acc);
}

pub fn run(tier: Tier, seed: u64) -> i32 {
  let mut rep = Report::new("C06", tier, seed);
  rep.rule = "selection function: JsrVersionResolver::get_for_package(..).resolve_version(..) called directly and compared with a model of the four-tier rule written from the statement. \
    Exhaustive block: every registry configuration of a 4-version universe (absent | present x yanked x {no date, before, after cutoff}: 7^4) x 14 requirements x every subset as already-selected x every subset as cached x cutoff on/off x \
    exclusion {none, exact name, scope prefix, unrelated, name prefix covering the package, name prefix not covering it}; quick takes a 1-in-37 stride of it (offset by seed), thorough all of it. Random block: 8-version universe incl. prerelease and 0.x, selected versions possibly outside the registry. \
    Graph level: registry worlds (see coverage.graph_level). non-trivial = at least 2 registry versions match the requirement; distinct by case index"
    .into();
  rep.assumptions = vec!["semver matching itself (deno_semver) is trusted and used by the model".into()];
  rep.min_nontrivial = tier.pick(50_000, 2_000_000);
  rep.floor("expected:yanked-fallback", 1000);
  rep.floor("expected:not-found-excluded-by-date", 1000);
  let mut acc = Acc::new();
  run_selection(tier, seed, &mut acc);
  crate::reg::run_c06_graph_level(tier, seed, &mut acc);
  rep.finish(acc)
}
