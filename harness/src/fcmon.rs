// E5: re-parse monitors for emitted fast-check modules (C09, C10, C11).
#![allow(dead_code)]

use deno_ast::MediaType;
use deno_ast::ModuleSpecifier;
use deno_ast::ParseParams;
use deno_ast::ParsedSource;
use deno_ast::swc::ast::*;
use deno_ast::swc::common::SyntaxContext;
use deno_ast::swc::ecma_visit::Visit;
use deno_ast::swc::ecma_visit::VisitWith;
use std::collections::BTreeMap;
use std::collections::BTreeSet;

pub fn parse_ts(
  specifier: &ModuleSpecifier,
  text: &str,
  media_type: MediaType,
  scope_analysis: bool,
) -> Result<ParsedSource, String> {
  deno_ast::parse_module(ParseParams {
    specifier: specifier.clone(),
    text: text.into(),
    media_type,
    capture_tokens: false,
    scope_analysis,
    maybe_syntax: None,
  })
  .map_err(|e| e.to_string())
}

// ------------------------------------------------------------ top level

#[derive(Default, Debug, Clone)]
pub struct ModTop {
  /// declared name -> kinds ("function", "class", "interface", "type", "enum", "const", "namespace")
  pub decls: BTreeMap<String, BTreeSet<&'static str>>,
  pub import_locals: BTreeSet<String>,
  /// (specifier, imported names; "*" for namespace, "default")
  pub imports: Vec<(String, Vec<String>)>,
  /// names exported directly (own declarations, `export { a as b }`, default)
  pub exports: BTreeSet<String>,
  pub star_reexports: Vec<String>,
  /// (specifier, original name, exported name)
  pub named_reexports: Vec<(String, String, String)>,
  /// statement kinds that are neither declarations nor imports/exports
  pub other_statements: Vec<String>,
}

fn export_name(n: &ModuleExportName) -> String {
  match n {
    ModuleExportName::Ident(i) => i.sym.to_string(),
    ModuleExportName::Str(s) => s.value.to_string_lossy().to_string(),
  }
}

fn decl_names(d: &Decl, out: &mut Vec<(String, &'static str)>) {
  match d {
    Decl::Class(c) => out.push((c.ident.sym.to_string(), "class")),
    Decl::Fn(f) => out.push((f.ident.sym.to_string(), "function")),
    Decl::Var(v) => {
      for d in &v.decls {
        pat_names(&d.name, out);
      }
    }
    Decl::Using(u) => {
      for d in &u.decls {
        pat_names(&d.name, out);
      }
    }
    Decl::TsInterface(i) => out.push((i.id.sym.to_string(), "interface")),
    Decl::TsTypeAlias(t) => out.push((t.id.sym.to_string(), "type")),
    Decl::TsEnum(e) => out.push((e.id.sym.to_string(), "enum")),
    Decl::TsModule(m) => {
      if let TsModuleName::Ident(i) = &m.id {
        out.push((i.sym.to_string(), "namespace"));
      }
    }
  }
}

fn pat_names(p: &Pat, out: &mut Vec<(String, &'static str)>) {
  match p {
    Pat::Ident(i) => out.push((i.id.sym.to_string(), "const")),
    Pat::Array(a) => {
      for e in a.elems.iter().flatten() {
        pat_names(e, out);
      }
    }
    Pat::Object(o) => {
      for p in &o.props {
        match p {
          ObjectPatProp::KeyValue(kv) => pat_names(&kv.value, out),
          ObjectPatProp::Assign(a) => out.push((a.key.id.sym.to_string(), "const")),
          ObjectPatProp::Rest(r) => pat_names(&r.arg, out),
        }
      }
    }
    Pat::Rest(r) => pat_names(&r.arg, out),
    Pat::Assign(a) => pat_names(&a.left, out),
    _ => {}
  }
}

pub fn module_top(parsed: &ParsedSource) -> ModTop {
  let mut t = ModTop::default();
  let program = parsed.program_ref();
  let deno_ast::ProgramRef::Module(module) = program else {
    // scripts: only declarations
    if let deno_ast::ProgramRef::Script(s) = program {
      for st in &s.body {
        if let Stmt::Decl(d) = st {
          let mut v = vec![];
          decl_names(d, &mut v);
          for (n, k) in v {
            t.decls.entry(n).or_default().insert(k);
          }
        } else {
          t.other_statements.push(stmt_kind(st).to_string());
        }
      }
    }
    return t;
  };
  for item in &module.body {
    match item {
      ModuleItem::Stmt(Stmt::Decl(d)) => {
        let mut v = vec![];
        decl_names(d, &mut v);
        for (n, k) in v {
          t.decls.entry(n).or_default().insert(k);
        }
      }
      ModuleItem::Stmt(Stmt::Empty(_)) => {}
      ModuleItem::Stmt(s) => t.other_statements.push(stmt_kind(s).to_string()),
      ModuleItem::ModuleDecl(md) => match md {
        ModuleDecl::Import(i) => {
          let mut names = vec![];
          for s in &i.specifiers {
            match s {
              ImportSpecifier::Named(n) => {
                t.import_locals.insert(n.local.sym.to_string());
                names.push(
                  n.imported
                    .as_ref()
                    .map(export_name)
                    .unwrap_or_else(|| n.local.sym.to_string()),
                );
              }
              ImportSpecifier::Default(d) => {
                t.import_locals.insert(d.local.sym.to_string());
                names.push("default".into());
              }
              ImportSpecifier::Namespace(n) => {
                t.import_locals.insert(n.local.sym.to_string());
                names.push("*".into());
              }
            }
          }
          t.imports.push((i.src.value.to_string_lossy().to_string(), names));
        }
        ModuleDecl::ExportDecl(e) => {
          let mut v = vec![];
          decl_names(&e.decl, &mut v);
          for (n, k) in v {
            t.decls.entry(n.clone()).or_default().insert(k);
            t.exports.insert(n);
          }
        }
        ModuleDecl::ExportNamed(n) => match &n.src {
          Some(src) => {
            for s in &n.specifiers {
              match s {
                ExportSpecifier::Named(x) => {
                  let orig = export_name(&x.orig);
                  let exported = x.exported.as_ref().map(export_name).unwrap_or(orig.clone());
                  t.exports.insert(exported.clone());
                  t.named_reexports.push((src.value.to_string_lossy().to_string(), orig, exported));
                }
                ExportSpecifier::Namespace(ns) => {
                  t.exports.insert(export_name(&ns.name));
                  t.named_reexports.push((src.value.to_string_lossy().to_string(), "*".into(), export_name(&ns.name)));
                }
                ExportSpecifier::Default(d) => {
                  t.exports.insert(d.exported.sym.to_string());
                }
              }
            }
          }
          None => {
            for s in &n.specifiers {
              if let ExportSpecifier::Named(x) = s {
                let orig = export_name(&x.orig);
                t.exports.insert(x.exported.as_ref().map(export_name).unwrap_or(orig));
              }
            }
          }
        },
        ModuleDecl::ExportDefaultDecl(d) => {
          t.exports.insert("default".into());
          match &d.decl {
            DefaultDecl::Class(c) => {
              if let Some(i) = &c.ident {
                t.decls.entry(i.sym.to_string()).or_default().insert("class");
              }
            }
            DefaultDecl::Fn(f) => {
              if let Some(i) = &f.ident {
                t.decls.entry(i.sym.to_string()).or_default().insert("function");
              }
            }
            DefaultDecl::TsInterfaceDecl(i) => {
              t.decls.entry(i.id.sym.to_string()).or_default().insert("interface");
            }
          }
        }
        ModuleDecl::ExportDefaultExpr(_) => {
          t.exports.insert("default".into());
        }
        ModuleDecl::ExportAll(a) => t.star_reexports.push(a.src.value.to_string_lossy().to_string()),
        ModuleDecl::TsImportEquals(i) => {
          t.import_locals.insert(i.id.sym.to_string());
          if i.is_export {
            t.exports.insert(i.id.sym.to_string());
          }
        }
        ModuleDecl::TsExportAssignment(a) => {
          t.other_statements.push(if matches!(&*a.expr, Expr::Ident(_)) { "export=ident".into() } else { "export=".into() })
        }
        ModuleDecl::TsNamespaceExport(_) => t.other_statements.push("export as namespace".into()),
      },
    }
  }
  t
}

fn stmt_kind(s: &Stmt) -> &'static str {
  match s {
    Stmt::Block(_) => "block",
    Stmt::Empty(_) => "empty",
    Stmt::Debugger(_) => "debugger",
    Stmt::With(_) => "with",
    Stmt::Return(_) => "return",
    Stmt::Labeled(_) => "labeled",
    Stmt::Break(_) => "break",
    Stmt::Continue(_) => "continue",
    Stmt::If(_) => "if",
    Stmt::Switch(_) => "switch",
    Stmt::Throw(_) => "throw",
    Stmt::Try(_) => "try",
    Stmt::While(_) => "while",
    Stmt::DoWhile(_) => "do-while",
    Stmt::For(_) => "for",
    Stmt::ForIn(_) => "for-in",
    Stmt::ForOf(_) => "for-of",
    Stmt::Decl(_) => "decl",
    Stmt::Expr(_) => "expression",
  }
}

// ------------------------------------------------------------ unresolved identifiers

struct UnresolvedCollector {
  unresolved: SyntaxContext,
  /// name -> contexts it occurs in
  names: BTreeMap<String, BTreeSet<&'static str>>,
  ambient: u32,
  private_member: u32,
}

impl UnresolvedCollector {
  fn ctx(&self) -> &'static str {
    match (self.ambient > 0, self.private_member > 0) {
      (true, true) => "ambient-class-private-member",
      (true, false) => "ambient-declaration",
      (false, true) => "private-member",
      (false, false) => "ordinary",
    }
  }
}

impl Visit for UnresolvedCollector {
  fn visit_ident(&mut self, i: &Ident) {
    if i.ctxt == self.unresolved {
      let c = self.ctx();
      self.names.entry(i.sym.to_string()).or_default().insert(c);
    }
  }
  fn visit_class_decl(&mut self, n: &ClassDecl) {
    if n.declare {
      self.ambient += 1;
    }
    n.visit_children_with(self);
    if n.declare {
      self.ambient -= 1;
    }
  }
  fn visit_fn_decl(&mut self, n: &FnDecl) {
    if n.declare {
      self.ambient += 1;
    }
    n.visit_children_with(self);
    if n.declare {
      self.ambient -= 1;
    }
  }
  fn visit_var_decl(&mut self, n: &VarDecl) {
    if n.declare {
      self.ambient += 1;
    }
    n.visit_children_with(self);
    if n.declare {
      self.ambient -= 1;
    }
  }
  fn visit_ts_module_decl(&mut self, n: &TsModuleDecl) {
    if n.declare || n.global {
      self.ambient += 1;
    }
    n.visit_children_with(self);
    if n.declare || n.global {
      self.ambient -= 1;
    }
  }
  fn visit_constructor(&mut self, n: &Constructor) {
    let p = n.accessibility == Some(Accessibility::Private);
    if p {
      self.private_member += 1;
    }
    n.visit_children_with(self);
    if p {
      self.private_member -= 1;
    }
  }
  fn visit_class_method(&mut self, n: &ClassMethod) {
    let p = n.accessibility == Some(Accessibility::Private);
    if p {
      self.private_member += 1;
    }
    n.visit_children_with(self);
    if p {
      self.private_member -= 1;
    }
  }
  fn visit_class_prop(&mut self, n: &ClassProp) {
    let p = n.accessibility == Some(Accessibility::Private);
    if p {
      self.private_member += 1;
    }
    n.visit_children_with(self);
    if p {
      self.private_member -= 1;
    }
  }
}

/// identifiers of the module that swc's resolver left unresolved, with the
/// syntactic contexts they occur in
pub fn unresolved_idents_ctx(
  parsed: &ParsedSource,
  whole_file_ambient: bool,
) -> BTreeMap<String, BTreeSet<&'static str>> {
  let mut c = UnresolvedCollector {
    unresolved: parsed.unresolved_context(),
    names: BTreeMap::new(),
    ambient: if whole_file_ambient { 1 } else { 0 },
    private_member: 0,
  };
  match parsed.program_ref() {
    deno_ast::ProgramRef::Module(m) => m.visit_with(&mut c),
    deno_ast::ProgramRef::Script(s) => s.visit_with(&mut c),
  }
  c.names
}

pub fn unresolved_idents(parsed: &ParsedSource) -> BTreeSet<String> {
  unresolved_idents_ctx(parsed, false).into_keys().collect()
}

// ------------------------------------------------------------ erasure grammar (Appendix B)

#[derive(Default)]
pub struct Erasure {
  /// (category, detail)
  pub leaks: Vec<(String, String)>,
  /// output shapes seen (arm coverage)
  pub shapes: BTreeSet<&'static str>,
  ambient_depth: u32,
  pub enum_member_initialisers: usize,
}

impl Erasure {
  fn leak(&mut self, cat: &str, detail: impl Into<String>) {
    self.leaks.push((cat.to_string(), detail.into()));
  }
  fn ambient(&self) -> bool {
    self.ambient_depth > 0
  }
}

fn is_placeholder(e: &Expr) -> bool {
  // `{} as never`
  if let Expr::TsAs(a) = e
    && let Expr::Object(o) = &*a.expr
    && o.props.is_empty()
    && let TsType::TsKeywordType(k) = &*a.type_ann
  {
    return k.kind == TsKeywordTypeKind::TsNeverKeyword;
  }
  if let Expr::Paren(p) = e {
    return is_placeholder(&p.expr);
  }
  false
}

fn is_spread_placeholder(e: &ExprOrSpread) -> bool {
  if e.spread.is_none() {
    return is_placeholder(&e.expr);
  }
  // ...([] as never[])
  let mut x = &*e.expr;
  if let Expr::Paren(p) = x {
    x = &p.expr;
  }
  if let Expr::TsAs(a) = x
    && let Expr::Array(arr) = &*a.expr
  {
    return arr.elems.is_empty();
  }
  false
}

impl Erasure {
  pub fn check_program(&mut self, parsed: &ParsedSource, is_declaration_file: bool) {
    if is_declaration_file {
      self.ambient_depth += 1;
    }
    match parsed.program_ref() {
      deno_ast::ProgramRef::Module(m) => {
        for item in &m.body {
          self.module_item(item);
        }
      }
      deno_ast::ProgramRef::Script(s) => {
        for st in &s.body {
          self.stmt(st, "script");
        }
      }
    }
  }

  fn module_item(&mut self, item: &ModuleItem) {
    match item {
      ModuleItem::Stmt(s) => self.stmt(s, "module"),
      ModuleItem::ModuleDecl(md) => match md {
        ModuleDecl::Import(_) | ModuleDecl::ExportNamed(_) | ModuleDecl::ExportAll(_) => {
          self.shapes.insert("import/export-from");
        }
        ModuleDecl::ExportDecl(e) => self.decl(&e.decl),
        ModuleDecl::ExportDefaultDecl(d) => match &d.decl {
          DefaultDecl::Class(c) => {
            self.shapes.insert("export default class");
            self.class(&c.class, false);
          }
          DefaultDecl::Fn(f) => {
            self.shapes.insert("export default function");
            self.function(&f.function, "function", false);
          }
          DefaultDecl::TsInterfaceDecl(_) => {
            self.shapes.insert("export default interface");
          }
        },
        ModuleDecl::ExportDefaultExpr(e) => {
          self.shapes.insert("export default expression");
          if !self.leavable(&e.expr) {
            self.leak("default-export-expression-not-literal-like", expr_kind(&e.expr));
          }
        }
        ModuleDecl::TsImportEquals(_) => {
          self.shapes.insert("import equals");
        }
        ModuleDecl::TsExportAssignment(_) => self.leak("statement/export-assignment", ""),
        ModuleDecl::TsNamespaceExport(_) => self.leak("statement/namespace-export", ""),
      },
    }
  }

  fn stmt(&mut self, s: &Stmt, ctx: &str) {
    match s {
      Stmt::Decl(d) => self.decl(d),
      Stmt::Empty(_) => {}
      other => self.leak(
        &format!("statement/{}", stmt_kind(other)),
        format!("a {} statement survives in {}", stmt_kind(other), ctx),
      ),
    }
  }

  fn decl(&mut self, d: &Decl) {
    match d {
      Decl::Class(c) => {
        self.shapes.insert("class");
        if c.declare {
          self.ambient_depth += 1;
        }
        self.class(&c.class, false);
        if c.declare {
          self.ambient_depth -= 1;
        }
      }
      Decl::Fn(f) => {
        self.shapes.insert("function");
        if f.declare {
          self.ambient_depth += 1;
        }
        self.function(&f.function, "function", false);
        if f.declare {
          self.ambient_depth -= 1;
        }
      }
      Decl::Var(v) => {
        if v.declare {
          self.ambient_depth += 1;
        }
        for d in &v.decls {
          self.var_declarator(d);
        }
        if v.declare {
          self.ambient_depth -= 1;
        }
      }
      Decl::Using(_) => self.leak("declaration/using", ""),
      Decl::TsInterface(_) => {
        self.shapes.insert("interface");
      }
      Decl::TsTypeAlias(_) => {
        self.shapes.insert("type alias");
      }
      Decl::TsEnum(e) => {
        self.shapes.insert("enum");
        self.enum_member_initialisers += e.members.iter().filter(|m| m.init.is_some()).count();
      }
      Decl::TsModule(m) => {
        self.shapes.insert("namespace");
        let ambient = m.declare || m.global;
        if ambient {
          self.ambient_depth += 1;
        }
        if let Some(b) = &m.body {
          self.ts_namespace_body(b);
        }
        if ambient {
          self.ambient_depth -= 1;
        }
      }
    }
  }

  fn ts_namespace_body(&mut self, b: &TsNamespaceBody) {
    match b {
      TsNamespaceBody::TsModuleBlock(block) => {
        for item in &block.body {
          self.module_item(item);
        }
      }
      TsNamespaceBody::TsNamespaceDecl(d) => self.ts_namespace_body(&d.body),
    }
  }

  fn var_declarator(&mut self, d: &VarDeclarator) {
    let Pat::Ident(id) = &d.name else {
      self.leak("variable/destructuring", "");
      return;
    };
    match (&id.type_ann, &d.init) {
      (Some(_), None) => {
        self.shapes.insert("variable: annotated, no initialiser");
      }
      (Some(_), Some(init)) => {
        if is_placeholder(init) {
          self.shapes.insert("variable: annotated = placeholder");
        } else if self.ambient() {
        } else if self.leavable(init) {
          self.shapes.insert("variable: annotated = literal-like");
        } else {
          self.leak(
            "variable/initialiser-with-logic",
            format!("{} = <{}>", id.id.sym, expr_kind(init)),
          );
        }
      }
      (None, Some(init)) => {
        if self.leavable(init) {
          self.shapes.insert("variable: unannotated = literal-like");
        } else {
          self.leak(
            "variable/needs-inference",
            format!("{} has no annotation and initialiser <{}>", id.id.sym, expr_kind(init)),
          );
        }
      }
      (None, None) => {
        if !self.ambient() {
          self.leak("variable/no-type-no-initialiser", id.id.sym.to_string());
        }
      }
    }
  }

  fn body_is_erased(&self, b: &Option<BlockStmt>) -> bool {
    match b {
      None => true,
      Some(b) => {
        b.stmts.is_empty()
          || (b.stmts.len() == 1
            && matches!(&b.stmts[0], Stmt::Return(r) if r.arg.as_ref().is_some_and(|a| is_placeholder(a))))
      }
    }
  }

  fn param_pat(&mut self, p: &Pat, what: &str) {
    match p {
      Pat::Ident(i) => {
        if i.type_ann.is_none() {
          self.leak("parameter/no-type", format!("{} parameter {}", what, i.id.sym));
        }
      }
      Pat::Rest(r) => {
        if r.type_ann.is_none() {
          self.leak("parameter/no-type", format!("{} rest parameter", what));
        }
      }
      Pat::Array(a) => {
        if a.type_ann.is_none() {
          self.leak("parameter/no-type", format!("{} array pattern", what));
        }
        if a.elems.iter().any(|e| e.is_some()) {
          self.leak("parameter/destructuring-kept", what.to_string());
        }
      }
      Pat::Object(o) => {
        if o.type_ann.is_none() {
          self.leak("parameter/no-type", format!("{} object pattern", what));
        }
        if !o.props.is_empty() {
          self.leak("parameter/destructuring-kept", what.to_string());
        }
      }
      Pat::Assign(a) => {
        // `pattern = <leavable>` without annotation
        if !self.leavable(&a.right) {
          self.leak(
            "parameter/default-with-logic",
            format!("{} default <{}>", what, expr_kind(&a.right)),
          );
        }
        self.shapes.insert("parameter with literal-like default");
      }
      _ => self.leak("parameter/unexpected-pattern", what.to_string()),
    }
  }

  fn function(&mut self, f: &Function, what: &str, is_setter: bool) {
    if !f.decorators.is_empty() {
      self.leak("decorator", what.to_string());
    }
    if self.ambient() {
      if f.body.is_some() {
        self.leak("ambient/function-body", what.to_string());
      }
      return;
    }
    if !self.body_is_erased(&f.body) {
      self.leak(&format!("body-not-erased/{}", what), "");
    }
    if f.body.is_some() && (f.is_async || f.is_generator) {
      self.leak("async-or-generator-marker-on-placeholder-body", what.to_string());
    }
    for p in &f.params {
      if !p.decorators.is_empty() {
        self.leak("decorator", format!("{} parameter", what));
      }
      self.param_pat(&p.pat, what);
    }
    if f.return_type.is_none() && !is_setter {
      self.leak(&format!("no-return-type/{}", what), "");
    }
    match &f.body {
      None => {
        self.shapes.insert("function-like without body");
      }
      Some(b) if b.stmts.is_empty() => {
        self.shapes.insert("function-like with empty body");
      }
      _ => {
        self.shapes.insert("function-like returning placeholder");
      }
    }
  }

  fn class(&mut self, c: &Class, _is_expr: bool) {
    if !c.decorators.is_empty() {
      self.leak("decorator", "class");
    }
    let mut brands = 0;
    for m in &c.body {
      match m {
        ClassMember::Constructor(k) => {
          self.shapes.insert("constructor");
          if self.ambient() {
            continue;
          }
          let is_private = k.accessibility == Some(Accessibility::Private);
          if is_private && !k.params.is_empty() {
            self.leak("private-constructor-keeps-parameters", "");
          }
          for p in &k.params {
            match p {
              ParamOrTsParamProp::TsParamProp(_) => {
                self.leak("constructor/parameter-property-kept", "")
              }
              ParamOrTsParamProp::Param(p) => {
                if !p.decorators.is_empty() {
                  self.leak("decorator", "constructor parameter");
                }
                self.param_pat(&p.pat, "constructor");
              }
            }
          }
          if let Some(b) = &k.body {
            for s in &b.stmts {
              let ok = match s {
                Stmt::Expr(e) => match &*e.expr {
                  Expr::Call(call) => {
                    matches!(call.callee, Callee::Super(_))
                      && call.args.iter().all(is_spread_placeholder)
                  }
                  _ => false,
                },
                _ => false,
              };
              if ok {
                self.shapes.insert("constructor with placeholder super()");
              } else {
                self.leak("body-not-erased/constructor", stmt_kind(s));
              }
            }
          }
        }
        ClassMember::Method(m) => {
          self.shapes.insert(match m.kind {
            MethodKind::Method => "method",
            MethodKind::Getter => "getter",
            MethodKind::Setter => "setter",
          });
          if m.accessibility == Some(Accessibility::Private) {
            let cat = if self.ambient() { "private-member-not-reduced/method-of-ambient-class" } else { "private-member-not-reduced/method" };
            self.leak(cat, prop_name(&m.key));
          }
          let what = match m.kind {
            MethodKind::Method => "method",
            MethodKind::Getter => "getter",
            MethodKind::Setter => "setter",
          };
          self.function(&m.function, what, m.kind == MethodKind::Setter);
        }
        ClassMember::PrivateMethod(m) => {
          self.leak("es-private-member-kept/method", m.key.name.to_string());
        }
        ClassMember::ClassProp(p) => {
          if !p.decorators.is_empty() {
            self.leak("decorator", "property");
          }
          if p.accessibility == Some(Accessibility::Private) {
            self.shapes.insert("private member as declare any");
            let any = p.type_ann.as_ref().is_some_and(|t| {
              matches!(&*t.type_ann, TsType::TsKeywordType(k) if k.kind == TsKeywordTypeKind::TsAnyKeyword)
            });
            if !any || p.value.is_some() {
              let cat = if self.ambient() { "private-member-not-reduced/property-of-ambient-class" } else { "private-member-not-reduced/property" };
              self.leak(cat, prop_name(&p.key));
            }
            continue;
          }
          if self.ambient() {
            continue;
          }
          match (&p.type_ann, &p.value) {
            (Some(_), None) => {
              self.shapes.insert("property: annotated, no initialiser");
            }
            (Some(_), Some(v)) => {
              if !is_placeholder(v) && !self.leavable(v) {
                self.leak("property/initialiser-with-logic", prop_name(&p.key));
              }
            }
            (None, Some(v)) => {
              if self.leavable(v) {
                self.shapes.insert("property: unannotated = literal-like");
              } else {
                self.leak("property/needs-inference", prop_name(&p.key));
              }
            }
            (None, None) => self.leak("property/no-type-no-initialiser", prop_name(&p.key)),
          }
        }
        ClassMember::PrivateProp(p) => {
          // the synthesised `#private!: unknown` brand
          let is_brand = p.key.name == *"private" && p.value.is_none();
          if is_brand {
            brands += 1;
            self.shapes.insert("#private brand");
          } else {
            self.leak("es-private-member-kept/property", p.key.name.to_string());
          }
        }
        ClassMember::TsIndexSignature(_) => {
          self.shapes.insert("index signature");
        }
        ClassMember::Empty(_) => self.leak("class/empty-member", ""),
        ClassMember::StaticBlock(_) => self.leak("class/static-block", ""),
        ClassMember::AutoAccessor(_) => self.leak("class/auto-accessor-kept", ""),
      }
    }
    if brands > 1 {
      self.leak("class/more-than-one-brand", "");
    }
  }

  /// literal-like expressions the transform may leave in place
  fn leavable(&mut self, e: &Expr) -> bool {
    match e {
      Expr::This(_) | Expr::Ident(_) | Expr::Lit(_) => true,
      Expr::Member(m) => {
        self.leavable(&m.obj)
          && match &m.prop {
            MemberProp::Ident(_) => true,
            MemberProp::Computed(c) => self.leavable(&c.expr),
            MemberProp::PrivateName(_) => false,
          }
      }
      Expr::Tpl(t) => t.exprs.iter().all(|x| self.leavable(x)),
      Expr::Array(a) => a.elems.iter().all(|x| match x {
        None => true,
        Some(x) => self.leavable(&x.expr),
      }),
      Expr::Object(o) => o.props.iter().all(|p| match p {
        PropOrSpread::Spread(s) => self.leavable(&s.expr),
        PropOrSpread::Prop(p) => match &**p {
          Prop::Shorthand(_) => true,
          Prop::KeyValue(kv) => self.leavable(&kv.value),
          _ => false,
        },
      }),
      Expr::Unary(u) => self.leavable(&u.arg),
      Expr::Update(u) => self.leavable(&u.arg),
      Expr::Bin(b) => self.leavable(&b.left) && self.leavable(&b.right),
      Expr::Cond(c) => self.leavable(&c.test) && self.leavable(&c.cons) && self.leavable(&c.alt),
      Expr::Await(a) => self.leavable(&a.arg),
      Expr::Paren(p) => self.leavable(&p.expr),
      Expr::TsNonNull(n) => self.leavable(&n.expr),
      Expr::TsConstAssertion(c) => self.leavable(&c.expr),
      Expr::TsSatisfies(s) => self.leavable(&s.expr),
      Expr::TsAs(a) => is_placeholder(e) || self.leavable(&a.expr),
      Expr::TsTypeAssertion(a) => self.leavable(&a.expr) || is_placeholder(&a.expr),
      Expr::Fn(f) => {
        let before = self.leaks.len();
        self.function(&f.function, "function expression", false);
        self.leaks.len() == before
      }
      Expr::Arrow(a) => {
        self.shapes.insert("arrow function");
        let before = self.leaks.len();
        for p in &a.params {
          self.param_pat(p, "arrow function");
        }
        match &*a.body {
          BlockStmtOrExpr::BlockStmt(b) => {
            if !(b.stmts.is_empty()
              || (b.stmts.len() == 1
                && matches!(&b.stmts[0], Stmt::Return(r) if r.arg.as_ref().is_some_and(|x| is_placeholder(x)))))
            {
              self.leak("body-not-erased/arrow function", "");
            }
            if a.return_type.is_none() {
              self.leak("no-return-type/arrow function", "");
            }
          }
          BlockStmtOrExpr::Expr(x) => {
            if is_placeholder(x) {
              if a.return_type.is_none() {
                self.leak("no-return-type/arrow function", "");
              }
            } else if !self.leavable(x) {
              self.leak("body-not-erased/arrow function", expr_kind(x));
            }
          }
        }
        if a.is_async && !matches!(&*a.body, BlockStmtOrExpr::Expr(_)) {
          // async marker on an erased body would change the declared type
          self.leak("async-or-generator-marker-on-placeholder-body", "arrow function");
        }
        self.leaks.len() == before
      }
      _ => false,
    }
  }
}

fn prop_name(p: &PropName) -> String {
  match p {
    PropName::Ident(i) => i.sym.to_string(),
    PropName::Str(s) => s.value.to_string_lossy().to_string(),
    PropName::Num(n) => n.value.to_string(),
    PropName::Computed(_) => "[computed]".into(),
    PropName::BigInt(b) => b.value.to_string(),
  }
}

pub fn expr_kind(e: &Expr) -> &'static str {
  match e {
    Expr::Call(_) => "call",
    Expr::New(_) => "new",
    Expr::Seq(_) => "sequence",
    Expr::Assign(_) => "assignment",
    Expr::Class(_) => "class expression",
    Expr::TaggedTpl(_) => "tagged template",
    Expr::Yield(_) => "yield",
    Expr::OptChain(_) => "optional chain",
    Expr::Fn(_) => "function expression",
    Expr::Arrow(_) => "arrow function",
    Expr::Object(_) => "object",
    Expr::Array(_) => "array",
    Expr::Tpl(_) => "template",
    Expr::Bin(_) => "binary",
    Expr::Member(_) => "member",
    Expr::Ident(_) => "identifier",
    Expr::Lit(_) => "literal",
    _ => "other",
  }
}

// ------------------------------------------------------------ source maps

/// Decodes a "mappings" string into (gen_line, gen_col, src_idx, orig_line, orig_col)
pub fn decode_mappings(mappings: &str) -> Result<Vec<(u32, u32, u32, u32, u32)>, String> {
  const B64: &[u8] = b"ABCDEFGHIJKLMNOPQRSTUVWXYZabcdefghijklmnopqrstuvwxyz0123456789+/";
  let mut out = vec![];
  let (mut src, mut ol, mut oc) = (0i64, 0i64, 0i64);
  for (gl, line) in mappings.split(';').enumerate() {
    let mut gc = 0i64;
    for seg in line.split(',') {
      if seg.is_empty() {
        continue;
      }
      let mut vals = vec![];
      let mut shift = 0;
      let mut value: i64 = 0;
      for ch in seg.bytes() {
        let d = B64.iter().position(|b| *b == ch).ok_or("bad base64 digit")? as i64;
        value |= (d & 31) << shift;
        if d & 32 != 0 {
          shift += 5;
        } else {
          let neg = value & 1 == 1;
          let v = value >> 1;
          vals.push(if neg { -v } else { v });
          value = 0;
          shift = 0;
        }
      }
      if shift != 0 {
        return Err("unterminated VLQ".into());
      }
      if vals.len() != 1 && vals.len() != 4 && vals.len() != 5 {
        return Err(format!("segment with {} fields", vals.len()));
      }
      gc += vals[0];
      if vals.len() >= 4 {
        src += vals[1];
        ol += vals[2];
        oc += vals[3];
        if gc < 0 || src < 0 || ol < 0 || oc < 0 {
          return Err("negative position".into());
        }
        out.push((gl as u32, gc as u32, src as u32, ol as u32, oc as u32));
      }
    }
  }
  Ok(out)
}

/// byte offset of (line, utf-16 column) in text; None if outside
pub fn utf16_pos_to_byte(text: &str, line: u32, col: u32) -> Option<usize> {
  let mut cur_line = 0u32;
  let mut line_start = 0usize;
  if line > 0 {
    let mut found = false;
    for (i, b) in text.bytes().enumerate() {
      if b == b'\n' {
        cur_line += 1;
        if cur_line == line {
          line_start = i + 1;
          found = true;
          break;
        }
      }
    }
    if !found {
      return None;
    }
  }
  let mut units = 0u32;
  for (off, ch) in text[line_start..].char_indices() {
    if units == col {
      return Some(line_start + off);
    }
    if ch == '\n' {
      return None;
    }
    units += ch.len_utf16() as u32;
  }
  (units == col).then_some(text.len())
}

pub fn ident_at(text: &str, byte: usize) -> Option<&str> {
  let rest = &text[byte..];
  let mut end = 0;
  for (i, ch) in rest.char_indices() {
    let ok = if i == 0 {
      ch == '_' || ch == '$' || ch.is_alphabetic()
    } else {
      ch == '_' || ch == '$' || ch.is_alphanumeric()
    };
    if !ok {
      break;
    }
    end = i + ch.len_utf8();
  }
  if end == 0 {
    return None;
  }
  // must start an identifier (previous char is not an identifier char)
  if byte > 0 {
    let prev = text[..byte].chars().next_back().unwrap();
    if prev == '_' || prev == '$' || prev.is_alphanumeric() {
      return None;
    }
  }
  Some(&rest[..end])
}

/// byte span of the top-level item of `parsed` that declares `name`
pub fn top_level_span(parsed: &ParsedSource, name: &str) -> Option<(usize, usize)> {
  use deno_ast::SourceRangedForSpanned;
  let deno_ast::ProgramRef::Module(module) = parsed.program_ref() else { return None };
  let start = parsed.text_info_lazy().range().start;
  for item in &module.body {
    let mut v = vec![];
    match item {
      ModuleItem::Stmt(Stmt::Decl(d)) => decl_names(d, &mut v),
      ModuleItem::ModuleDecl(ModuleDecl::ExportDecl(e)) => decl_names(&e.decl, &mut v),
      ModuleItem::ModuleDecl(ModuleDecl::ExportDefaultDecl(d)) => match &d.decl {
        DefaultDecl::Class(c) => v.push((c.ident.as_ref().map(|i| i.sym.to_string()).unwrap_or_default(), "class")),
        DefaultDecl::Fn(f) => v.push((f.ident.as_ref().map(|i| i.sym.to_string()).unwrap_or_default(), "function")),
        DefaultDecl::TsInterfaceDecl(i) => v.push((i.id.sym.to_string(), "interface")),
      },
      _ => {}
    }
    if v.iter().any(|(n, _)| n == name) {
      let r = item.range();
      return Some((r.start.as_byte_index(start), r.end.as_byte_index(start)));
    }
  }
  None
}

/// spans of *all* top-level items that declare `name` (a type and a function may share a name)
pub fn top_level_spans(parsed: &ParsedSource, name: &str) -> Vec<(usize, usize)> {
  use deno_ast::SourceRangedForSpanned;
  let deno_ast::ProgramRef::Module(module) = parsed.program_ref() else { return vec![] };
  let start = parsed.text_info_lazy().range().start;
  let mut out = vec![];
  for item in &module.body {
    let mut v = vec![];
    match item {
      ModuleItem::Stmt(Stmt::Decl(d)) => decl_names(d, &mut v),
      ModuleItem::ModuleDecl(ModuleDecl::ExportDecl(e)) => decl_names(&e.decl, &mut v),
      ModuleItem::ModuleDecl(ModuleDecl::ExportDefaultDecl(d)) => match &d.decl {
        DefaultDecl::Class(c) => v.push((c.ident.as_ref().map(|i| i.sym.to_string()).unwrap_or_default(), "class")),
        DefaultDecl::Fn(f) => v.push((f.ident.as_ref().map(|i| i.sym.to_string()).unwrap_or_default(), "function")),
        DefaultDecl::TsInterfaceDecl(i) => v.push((i.id.sym.to_string(), "interface")),
      },
      _ => {}
    }
    if v.iter().any(|(n, _)| n == name) {
      let r = item.range();
      out.push((r.start.as_byte_index(start), r.end.as_byte_index(start)));
    }
  }
  out
}

// ------------------------------------------------------------ signature slots (C11)
//
// A "slot" is one place of a module-level declaration where the source can
// write a type: parameter types, return types, property types, type
// parameter lists, heritage clauses, interface bodies, type alias bodies.
// Slots are keyed by a path that is stable under fast check (declaration
// name, overload index, member name, parameter index), so the output's slots
// can be compared with the original's by AST equality that ignores spans.

use deno_ast::swc::common::EqIgnoreSpan;

#[derive(Clone, Debug)]
pub enum SlotVal {
  Type(Box<TsType>),
  TypeParams(Box<TsTypeParamDecl>),
  Extends(Box<Expr>, Option<Box<TsTypeParamInstantiation>>),
  Heritage(Vec<TsExprWithTypeArgs>),
  Members(Vec<TsTypeElement>),
  Names(Vec<String>),
}

impl SlotVal {
  pub fn same(&self, other: &SlotVal) -> bool {
    match (self, other) {
      (SlotVal::Type(a), SlotVal::Type(b)) => a.eq_ignore_span(b),
      (SlotVal::TypeParams(a), SlotVal::TypeParams(b)) => a.eq_ignore_span(b),
      (SlotVal::Extends(a, ta), SlotVal::Extends(b, tb)) => a.eq_ignore_span(b) && ta.eq_ignore_span(tb),
      (SlotVal::Heritage(a), SlotVal::Heritage(b)) => a.eq_ignore_span(b),
      (SlotVal::Members(a), SlotVal::Members(b)) => a.eq_ignore_span(b),
      (SlotVal::Names(a), SlotVal::Names(b)) => a == b,
      _ => false,
    }
  }
  /// `self` is `other | undefined`
  pub fn is_nullable_of(&self, other: &SlotVal) -> bool {
    if let (SlotVal::Type(a), SlotVal::Type(b)) = (self, other)
      && let TsType::TsUnionOrIntersectionType(TsUnionOrIntersectionType::TsUnionType(u)) = &**a
      && u.types.len() == 2
      && u.types[0].eq_ignore_span(b)
      && matches!(&*u.types[1], TsType::TsKeywordType(k) if k.kind == TsKeywordTypeKind::TsUndefinedKeyword)
    {
      return true;
    }
    false
  }
}

#[derive(Default)]
pub struct Slots {
  pub slots: BTreeMap<String, SlotVal>,
  /// parameter slots whose parameter has a default value
  pub defaulted: BTreeSet<String>,
  /// slot path prefixes of implementation signatures that follow overload
  /// signatures (not part of the public signature)
  pub overload_impls: BTreeSet<String>,
  /// every parameter slot key (annotated or not)
  pub params: BTreeSet<String>,
  /// parameters written `x?: T`
  pub optional: BTreeSet<String>,
  /// parameters followed only by optional, defaulted or rest parameters
  pub optional_tail: BTreeSet<String>,
}

impl Slots {
  fn put(&mut self, key: String, v: SlotVal) {
    self.slots.insert(key, v);
  }

  fn params<'a>(&mut self, base: &str, pats: impl Iterator<Item = &'a Pat>) {
    let pats: Vec<&Pat> = pats.collect();
    let is_optional = |p: &Pat| match p {
      Pat::Ident(b) => b.optional,
      Pat::Array(a) => a.optional,
      Pat::Object(o) => o.optional,
      Pat::Assign(_) | Pat::Rest(_) => true,
      _ => false,
    };
    for (i, p) in pats.iter().enumerate() {
      let key = format!("{}/param {}", base, i);
      self.params.insert(key.clone());
      if matches!(p, Pat::Ident(b) if b.optional) || matches!(p, Pat::Array(a) if a.optional) || matches!(p, Pat::Object(o) if o.optional) {
        self.optional.insert(key.clone());
      }
      if pats[i..].iter().all(|q| is_optional(q)) {
        self.optional_tail.insert(key.clone());
      }
    }
    for (i, p) in pats.into_iter().enumerate() {
      let key = format!("{}/param {}", base, i);
      let ann = match p {
        Pat::Ident(b) => b.type_ann.as_ref(),
        Pat::Array(a) => a.type_ann.as_ref(),
        Pat::Object(o) => o.type_ann.as_ref(),
        Pat::Rest(r) => r.type_ann.as_ref(),
        Pat::Assign(a) => {
          self.defaulted.insert(key.clone());
          match &*a.left {
            Pat::Ident(b) => b.type_ann.as_ref(),
            Pat::Array(a) => a.type_ann.as_ref(),
            Pat::Object(o) => o.type_ann.as_ref(),
            _ => None,
          }
        }
        _ => None,
      };
      if let Some(t) = ann {
        self.put(key, SlotVal::Type(t.type_ann.clone()));
      }
    }
  }

  fn function(&mut self, base: &str, f: &Function) {
    if f.body.is_some() && !base.ends_with("#0") {
      self.overload_impls.insert(format!("{}/", base));
    }
    if let Some(tp) = &f.type_params {
      self.put(format!("{}/type parameters", base), SlotVal::TypeParams(tp.clone()));
    }
    self.params(base, f.params.iter().map(|p| &p.pat));
    if let Some(r) = &f.return_type {
      self.put(format!("{}/return", base), SlotVal::Type(r.type_ann.clone()));
    }
  }

  fn class(&mut self, base: &str, c: &Class) {
    if let Some(tp) = &c.type_params {
      self.put(format!("{}/type parameters", base), SlotVal::TypeParams(tp.clone()));
    }
    if let Some(sc) = &c.super_class {
      self.put(format!("{}/extends", base), SlotVal::Extends(sc.clone(), c.super_type_params.clone()));
    }
    if !c.implements.is_empty() {
      self.put(format!("{}/implements", base), SlotVal::Heritage(c.implements.clone()));
    }
    let mut seen: BTreeMap<String, usize> = BTreeMap::new();
    let mut ctor_k = 0;
    for m in &c.body {
      match m {
        ClassMember::Constructor(k) => {
          if k.accessibility == Some(Accessibility::Private) {
            continue;
          }
          let b = format!("{}/constructor#{}", base, ctor_k);
          if k.body.is_some() && ctor_k > 0 {
            self.overload_impls.insert(format!("{}/", b));
          }
          ctor_k += 1;
          // all parameters as patterns (parameter properties included), so
          // that the optional-tail rule sees the whole list
          let pats: Vec<Pat> = k
            .params
            .iter()
            .map(|p| match p {
              ParamOrTsParamProp::Param(p) => p.pat.clone(),
              ParamOrTsParamProp::TsParamProp(pp) => match &pp.param {
                TsParamPropParam::Ident(b) => Pat::Ident(b.clone()),
                TsParamPropParam::Assign(a) => Pat::Assign(a.clone()),
              },
            })
            .collect();
          self.params(&b, pats.iter());
          for p in &k.params {
            if let ParamOrTsParamProp::TsParamProp(pp) = p {
              let (name, ann) = match &pp.param {
                TsParamPropParam::Ident(b) => (b.id.sym.to_string(), b.type_ann.as_ref()),
                TsParamPropParam::Assign(a) => match &*a.left {
                  Pat::Ident(b) => (b.id.sym.to_string(), b.type_ann.as_ref()),
                  _ => continue,
                },
              };
              if let Some(t) = ann
                && pp.accessibility != Some(Accessibility::Private)
              {
                // the property the parameter declares
                self.put(format!("{}/property {}", base, name), SlotVal::Type(t.type_ann.clone()));
              }
            }
          }
        }
        ClassMember::Method(m) => {
          if m.accessibility == Some(Accessibility::Private) {
            continue;
          }
          let name = format!(
            "{}{}{}",
            if m.is_static { "static " } else { "" },
            match m.kind {
              MethodKind::Method => "",
              MethodKind::Getter => "get ",
              MethodKind::Setter => "set ",
            },
            member_key(&m.key)
          );
          let k = seen.entry(name.clone()).or_default();
          let b = format!("{}/method {}#{}", base, name, k);
          *k += 1;
          self.function(&b, &m.function);
        }
        ClassMember::ClassProp(p) => {
          if p.accessibility == Some(Accessibility::Private) {
            continue;
          }
          if let Some(t) = &p.type_ann {
            self.put(
              format!("{}/property {}{}", base, if p.is_static { "static " } else { "" }, member_key(&p.key)),
              SlotVal::Type(t.type_ann.clone()),
            );
          }
        }
        ClassMember::TsIndexSignature(s) => {
          if let Some(t) = &s.type_ann {
            self.put(format!("{}/index signature", base), SlotVal::Type(t.type_ann.clone()));
          }
        }
        ClassMember::AutoAccessor(a) => {
          if a.accessibility == Some(Accessibility::Private) {
            continue;
          }
          if let (Key::Public(k), Some(t)) = (&a.key, &a.type_ann) {
            self.put(format!("{}/accessor {}", base, member_key(k)), SlotVal::Type(t.type_ann.clone()));
          }
        }
        _ => {}
      }
    }
  }

  fn decl(&mut self, prefix: &str, d: &Decl, fn_seen: &mut BTreeMap<String, usize>) {
    match d {
      Decl::Fn(f) => {
        let k = fn_seen.entry(f.ident.sym.to_string()).or_default();
        let b = format!("{}function {}#{}", prefix, f.ident.sym, k);
        *k += 1;
        self.function(&b, &f.function);
      }
      Decl::Class(c) => self.class(&format!("{}class {}", prefix, c.ident.sym), &c.class),
      Decl::TsInterface(i) => self.interface(prefix, i),
      Decl::TsTypeAlias(t) => {
        let b = format!("{}type {}", prefix, t.id.sym);
        if let Some(tp) = &t.type_params {
          self.put(format!("{}/type parameters", b), SlotVal::TypeParams(tp.clone()));
        }
        self.put(b, SlotVal::Type(t.type_ann.clone()));
      }
      Decl::TsEnum(e) => {
        self.put(
          format!("{}enum {}/member names", prefix, e.id.sym),
          SlotVal::Names(
            e.members
              .iter()
              .map(|m| match &m.id {
                TsEnumMemberId::Ident(i) => i.sym.to_string(),
                TsEnumMemberId::Str(s) => s.value.to_string_lossy().to_string(),
              })
              .collect(),
          ),
        );
      }
      Decl::Var(v) => {
        for d in &v.decls {
          if let Pat::Ident(b) = &d.name {
            let base = format!("{}variable {}", prefix, b.id.sym);
            if let Some(t) = &b.type_ann {
              self.put(format!("{}/type", base), SlotVal::Type(t.type_ann.clone()));
            }
            match d.init.as_deref() {
              Some(Expr::Arrow(a)) => {
                let fb = format!("{}/function", base);
                if let Some(tp) = &a.type_params {
                  self.put(format!("{}/type parameters", fb), SlotVal::TypeParams(tp.clone()));
                }
                self.params(&fb, a.params.iter());
                if let Some(r) = &a.return_type {
                  self.put(format!("{}/return", fb), SlotVal::Type(r.type_ann.clone()));
                }
              }
              Some(Expr::Fn(f)) => self.function(&format!("{}/function", base), &f.function),
              _ => {}
            }
          }
        }
      }
      Decl::TsModule(m) => {
        if let (TsModuleName::Ident(id), Some(body)) = (&m.id, &m.body) {
          self.namespace_body(&format!("{}namespace {}/", prefix, id.sym), body);
        }
      }
      Decl::Using(_) => {}
    }
  }

  fn namespace_body(&mut self, prefix: &str, body: &TsNamespaceBody) {
    match body {
      TsNamespaceBody::TsModuleBlock(b) => {
        let mut fn_seen = BTreeMap::new();
        for item in &b.body {
          self.module_item(prefix, item, &mut fn_seen);
        }
      }
      TsNamespaceBody::TsNamespaceDecl(n) => {
        self.namespace_body(&format!("{}namespace {}/", prefix, n.id.sym), &n.body);
      }
    }
  }

  fn interface(&mut self, prefix: &str, i: &TsInterfaceDecl) {
    let b = format!("{}interface {}", prefix, i.id.sym);
    if let Some(tp) = &i.type_params {
      self.put(format!("{}/type parameters", b), SlotVal::TypeParams(tp.clone()));
    }
    if !i.extends.is_empty() {
      self.put(format!("{}/extends", b), SlotVal::Heritage(i.extends.clone()));
    }
    // interfaces merge: number the bodies
    let mut k = 0;
    while self.slots.contains_key(&format!("{}/body#{}", b, k)) {
      k += 1;
    }
    self.put(format!("{}/body#{}", b, k), SlotVal::Members(i.body.body.clone()));
  }

  fn module_item(&mut self, prefix: &str, item: &ModuleItem, fn_seen: &mut BTreeMap<String, usize>) {
    match item {
      ModuleItem::Stmt(Stmt::Decl(d)) => self.decl(prefix, d, fn_seen),
      ModuleItem::ModuleDecl(ModuleDecl::ExportDecl(e)) => self.decl(prefix, &e.decl, fn_seen),
      ModuleItem::ModuleDecl(ModuleDecl::ExportDefaultDecl(d)) => match &d.decl {
        DefaultDecl::Class(c) => {
          let n = c.ident.as_ref().map(|i| i.sym.to_string()).unwrap_or("default".into());
          self.class(&format!("{}class {}", prefix, n), &c.class);
        }
        DefaultDecl::Fn(f) => {
          let n = f.ident.as_ref().map(|i| i.sym.to_string()).unwrap_or("default".into());
          let k = fn_seen.entry(n.clone()).or_default();
          let b = format!("{}function {}#{}", prefix, n, k);
          *k += 1;
          self.function(&b, &f.function);
        }
        DefaultDecl::TsInterfaceDecl(i) => self.interface(prefix, i),
      },
      _ => {}
    }
  }
}

fn member_key(k: &PropName) -> String {
  match k {
    PropName::Computed(c) => match &*c.expr {
      Expr::Member(m) => match (&*m.obj, &m.prop) {
        (Expr::Ident(o), MemberProp::Ident(p)) => format!("[{}.{}]", o.sym, p.sym),
        _ => "[computed]".to_string(),
      },
      Expr::Ident(i) => format!("[{}]", i.sym),
      Expr::Lit(Lit::Str(s)) => s.value.to_string_lossy().to_string(),
      _ => "[computed]".to_string(),
    },
    other => prop_name(other),
  }
}

/// parse `text` without scope analysis (identifier contexts all empty, so
/// AST equality is name equality) and collect its signature slots
pub fn signature_slots(specifier: &ModuleSpecifier, text: &str, media: MediaType) -> Option<Slots> {
  let parsed = parse_ts(specifier, text, media, false).ok()?;
  let mut s = Slots::default();
  let mut fn_seen = BTreeMap::new();
  match parsed.program_ref() {
    deno_ast::ProgramRef::Module(m) => {
      for item in &m.body {
        s.module_item("", item, &mut fn_seen);
      }
    }
    deno_ast::ProgramRef::Script(sc) => {
      for st in &sc.body {
        if let Stmt::Decl(d) = st {
          s.decl("", d, &mut fn_seen);
        }
      }
    }
  }
  Some(s)
}
