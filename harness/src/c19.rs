// C19 — incremental builds and reloads converge to the from-scratch graph.
use crate::c01::obs_error_class;
use crate::common::*;
use crate::r#gen::*;
use crate::world::*;
use deno_graph::GraphKind;
use deno_graph::ModuleGraph;
use serde_json::Value;
use serde_json::json;
use std::collections::BTreeMap;

/// Canonical per-entry view: modules as their serialised JSON, errors as
/// (class, message) plus the referrer separately.
#[derive(Clone, Debug, PartialEq)]
pub struct EntryView {
  pub body: Value,
  pub referrer: Option<String>,
}

pub fn entry_views(g: &ModuleGraph) -> BTreeMap<String, EntryView> {
  let gj = graph_json(g);
  let mut m = BTreeMap::new();
  if let Some(a) = gj["modules"].as_array() {
    for e in a {
      let spec = e["specifier"].as_str().unwrap_or("").to_string();
      if e.get("error").is_some() {
        continue; // errors handled below with class + message
      }
      m.insert(
        spec,
        EntryView {
          body: e.clone(),
          referrer: None,
        },
      );
    }
  }
  for e in g.module_errors() {
    m.insert(
      e.specifier().to_string(),
      EntryView {
        body: json!({"error_class": obs_error_class(e.as_kind()), "message": e.to_string()}),
        referrer: Some(e.maybe_referrer().map(|r| r.to_string()).unwrap_or_default()),
      },
    );
  }
  m
}

fn redirects_of(g: &ModuleGraph) -> BTreeMap<String, String> {
  g.redirects
    .iter()
    .map(|(a, b)| (a.to_string(), b.to_string()))
    .collect()
}

fn build_steps(
  gw: &GWorld,
  cfg: &BuildCfg,
  steps: &[Vec<String>],
) -> Result<(ModuleGraph, Vec<usize>), PanicInfo> {
  let world = gw.to_world();
  let loader = ScriptedLoader::new(&world);
  let mut graph = ModuleGraph::new(cfg.kind);
  let mut loads = vec![];
  // multi-step builds share one capturing analyzer, the way embedders keep one across builds
  let capturing = deno_graph::ast::CapturingModuleAnalyzer::default();
  let analyzer: Option<&dyn deno_graph::analysis::ModuleAnalyzer> =
    if steps.len() > 1 { Some(&capturing) } else { None };
  for (i, roots) in steps.iter().enumerate() {
    let imports: &[(String, Vec<String>)] = if i == 0 { &gw.imports } else { &[] };
    catch(|| {
      run_build_with_analyzer(&mut graph, roots, imports, &loader, cfg, None, Exec::Inline, None, analyzer);
    })?;
    loads.push(loader.take_log().len());
  }
  Ok((graph, loads))
}

fn partition_case(i: usize, seed: u64, acc: &mut Acc) {
  let mut rng = Rng::new(seed).fork(i as u64 ^ 0xC19);
  let gcfg = GenCfg {
    max_modules: rng.range(3, 9),
    max_items: rng.range(1, 5),
    ..Default::default()
  };
  let mut gw = gen_world(&mut rng, &gcfg);
  // more roots: any js-like module
  let cands: Vec<String> = gw
    .modules
    .iter()
    .filter(|m| m.media.is_js_like())
    .map(|m| m.url.clone())
    .collect();
  for _ in 0..rng.below(3) {
    if cands.is_empty() {
      break;
    }
    let c = rng.pick(&cands).clone();
    if !gw.roots.contains(&c) {
      gw.roots.push(c);
    }
  }
  if has_context_conflict(&gw) {
    return;
  }
  let kind = *rng.pick(&[GraphKind::All, GraphKind::CodeOnly, GraphKind::TypesOnly]);
  let cfg = BuildCfg {
    kind,
    resolver: gw.map_resolver(),
    ..Default::default()
  };
  let ctx = json!({"world": gw.to_json(), "build": cfg.to_json()});
  let single = match build_steps(&gw, &cfg, &[gw.roots.clone()]) {
    Ok((g, _)) => g,
    Err(p) => {
      acc.violation(format!("panic/{}", p.signature()), p.message.clone(), ctx);
      return;
    }
  };
  let ev_single = entry_views(&single);
  // all order-preserving partitions into 1..=3 steps
  let n = gw.roots.len();
  let mut partitions: Vec<Vec<Vec<String>>> = vec![];
  for a in 1..=n {
    for b in a..=n {
      let mut p = vec![gw.roots[..a].to_vec()];
      if b > a {
        p.push(gw.roots[a..b].to_vec());
      }
      if b < n {
        p.push(gw.roots[b..].to_vec());
      }
      if !partitions.contains(&p) {
        partitions.push(p);
      }
    }
  }
  for p in partitions {
    if p.len() < 2 {
      continue;
    }
    acc.eval();
    acc.count(&format!("partition_steps:{}", p.len()));
    let w = |d: Value| json!({"ctx": ctx, "partition": p, "detail": d});
    let (g, _) = match build_steps(&gw, &cfg, &p) {
      Ok(x) => x,
      Err(pn) => {
        acc.violation(format!("panic/{}", pn.signature()), pn.message.clone(), w(json!({})));
        continue;
      }
    };
    acc.nontrivial(hash64(&(&gw, format!("{:?}", kind), &p)));
    let ev = entry_views(&g);
    let strip = |m: &BTreeMap<String, EntryView>| -> BTreeMap<String, Value> {
      m.iter().map(|(k, v)| (k.clone(), v.body.clone())).collect()
    };
    if strip(&ev) != strip(&ev_single) {
      let a = strip(&ev);
      let b = strip(&ev_single);
      let only_inc: Vec<_> = a.keys().filter(|k| !b.contains_key(*k)).collect();
      let only_single: Vec<_> = b.keys().filter(|k| !a.contains_key(*k)).collect();
      let differ: Vec<_> = a
        .iter()
        .filter(|(k, v)| b.get(*k).is_some_and(|x| x != *v))
        .map(|(k, _)| k)
        .collect();
      let dir = if !only_inc.is_empty() {
        "extra-entry"
      } else if !only_single.is_empty() {
        "missing-entry"
      } else {
        "entry-differs"
      };
      acc.violation(
        format!("incremental≠at-once/{}/{:?}", dir, kind),
        format!(
          "only incremental {:?}; only at-once {:?}; differing {:?}",
          only_inc, only_single, differ
        ),
        w(json!({})),
      );
    }
    if redirects_of(&g) != redirects_of(&single) {
      acc.violation(
        format!("incremental≠at-once/redirects/{:?}", kind),
        format!("{:?} vs {:?}", redirects_of(&g), redirects_of(&single)),
        w(json!({})),
      );
    }
    let ra: Vec<String> = g.roots.iter().map(|r| r.to_string()).collect();
    let rb: Vec<String> = single.roots.iter().map(|r| r.to_string()).collect();
    if ra != rb {
      acc.violation(
        "incremental≠at-once/roots",
        format!("{:?} vs {:?}", ra, rb),
        w(json!({})),
      );
    }
    // building again with known roots changes nothing and loads nothing
    let before = graph_json(&g);
    let world = gw.to_world();
    let loader = ScriptedLoader::new(&world);
    let mut g2 = g.clone();
    let again: Vec<String> = {
      let mut r = gw.roots.clone();
      rng.shuffle(&mut r);
      r.truncate(rng.range(1, r.len()));
      r
    };
    let r = catch(|| {
      run_build(&mut g2, &again, &gw.imports, &loader, &cfg, None, Exec::Inline, None);
    });
    acc.count("rebuilds_with_known_roots");
    match r {
      Err(pn) => acc.violation(format!("panic/{}", pn.signature()), pn.message.clone(), w(json!({}))),
      Ok(()) => {
        let log = loader.take_log();
        if graph_json(&g2) != before {
          acc.violation(
            "rebuild-known-roots/graph-changed",
            "building again with roots the graph already has changed it",
            w(json!({"again": again})),
          );
        }
        if !log.is_empty() {
          acc.violation(
            "rebuild-known-roots/loads-issued",
            format!("{} loader calls issued", log.len()),
            w(json!({"again": again, "log": log.iter().map(|e| e.to_json()).collect::<Vec<_>>()})),
          );
        }
      }
    }
  }
}

// ------------------------------------------------------------ reload histories

#[derive(Clone, Debug)]
enum Edit {
  AddItem(usize, Item),
  RemoveItem(usize, usize),
  Break(usize),
  Unbreak(usize),
  Delete(usize),
  Restore(usize),
  /// reload without any change (any loaded entry, incl. JSON modules)
  Touch(usize),
}

fn apply_edit(gw: &mut GWorld, e: &Edit) -> String {
  match e {
    Edit::AddItem(m, it) => {
      gw.modules[*m].items.push(it.clone());
      gw.modules[*m].url.clone()
    }
    Edit::RemoveItem(m, k) => {
      if *k < gw.modules[*m].items.len() {
        gw.modules[*m].items.remove(*k);
      }
      gw.modules[*m].url.clone()
    }
    Edit::Break(m) => {
      gw.modules[*m].broken = true;
      gw.modules[*m].url.clone()
    }
    Edit::Unbreak(m) => {
      gw.modules[*m].broken = false;
      gw.modules[*m].url.clone()
    }
    Edit::Delete(m) => {
      gw.modules[*m].serve = Serve::Missing;
      gw.modules[*m].url.clone()
    }
    Edit::Restore(m) => {
      gw.modules[*m].serve = Serve::Module;
      gw.modules[*m].url.clone()
    }
    Edit::Touch(m) => gw.modules[*m].url.clone(),
  }
}

fn random_edit(rng: &mut Rng, gw: &GWorld, loaded: &[String]) -> Option<Edit> {
  if rng.chance(1, 5) {
    // touch: a loaded JSON or JS/TS module served by extension
    let cands: Vec<usize> = gw
      .modules
      .iter()
      .enumerate()
      .filter(|(_, m)| {
        (m.media == Media::Json || m.media.is_js_like())
          && !m.via_header
          && m.serve == Serve::Module
          && loaded.contains(&m.url)
      })
      .map(|(i, _)| i)
      .collect();
    if !cands.is_empty() {
      return Some(Edit::Touch(*rng.pick(&cands)));
    }
  }
  // edit only modules that are currently loaded JS/TS modules (or deleted ones)
  let cands: Vec<usize> = gw
    .modules
    .iter()
    .enumerate()
    .filter(|(_, m)| {
      m.media.is_js_like()
        && !m.via_header
        && loaded.contains(&m.url)
        && matches!(m.serve, Serve::Module | Serve::Missing)
    })
    .map(|(i, _)| i)
    .collect();
  if cands.is_empty() {
    return None;
  }
  let m = *rng.pick(&cands);
  let module = &gw.modules[m];
  if module.serve == Serve::Missing {
    return Some(Edit::Restore(m));
  }
  Some(match rng.below(10) {
    0..=3 => {
      let targets: Vec<&GModule> = gw
        .modules
        .iter()
        .filter(|t| t.media.is_js_like() && !matches!(t.serve, Serve::Redirect(_)))
        .collect();
      if targets.is_empty() {
        return None;
      }
      let t = rng.pick(&targets);
      let form = if module.media.is_typed() && rng.chance(1, 3) {
        Form::ImportType
      } else {
        *rng.pick(&[Form::Import, Form::SideEffect, Form::ExportStar, Form::DynImport])
      };
      Edit::AddItem(
        m,
        Item {
          form,
          text: t.url.clone(),
          deno_types: None,
        },
      )
    }
    4 | 5 => {
      if module.items.is_empty() {
        Edit::Break(m)
      } else {
        Edit::RemoveItem(m, rng.below(module.items.len()))
      }
    }
    6 => Edit::Break(m),
    7 => Edit::Unbreak(m),
    _ => Edit::Delete(m),
  })
}

fn reload_case(i: usize, seed: u64, acc: &mut Acc) {
  let mut rng = Rng::new(seed).fork(i as u64 ^ 0xC19_0000);
  let gcfg = GenCfg {
    max_modules: rng.range(3, 8),
    max_items: rng.range(1, 4),
    allow_resolver: false,
    ..Default::default()
  };
  let mut gw = gen_world(&mut rng, &gcfg);
  let kind = *rng.pick(&[GraphKind::All, GraphKind::CodeOnly]);
  let cfg = BuildCfg {
    kind,
    ..Default::default()
  };
  let world0 = gw.to_world();
  let loader0 = ScriptedLoader::new(&world0);
  let mut g = ModuleGraph::new(kind);
  // half of the histories keep one capturing analyzer (parsed-source store) for the build and every
  // reload, as the CLI / language server do; the from-scratch comparison never shares it
  let capturing = deno_graph::ast::CapturingModuleAnalyzer::default();
  let analyzer: Option<&dyn deno_graph::analysis::ModuleAnalyzer> = if rng.coin() {
    acc.count("histories_sharing_a_capturing_analyzer");
    Some(&capturing)
  } else {
    None
  };
  if let Err(p) = catch(|| {
    run_build_with_analyzer(&mut g, &gw.roots, &gw.imports, &loader0, &cfg, None, Exec::Inline, None, analyzer)
  }) {
    acc.violation(format!("panic/{}", p.signature()), p.message.clone(), json!({"world": gw.to_json()}));
    return;
  }
  let steps = rng.range(1, 4);
  let mut history: Vec<Value> = vec![];
  let mut ever_reloaded: Vec<String> = vec![];
  for _ in 0..steps {
    let loaded: Vec<String> = g
      .specifiers()
      .map(|(s, _)| s.to_string())
      .collect();
    let n_edits = rng.range(1, 2);
    let mut edited: Vec<String> = vec![];
    let mut edits_desc = vec![];
    for _ in 0..n_edits {
      if let Some(e) = random_edit(&mut rng, &gw, &loaded) {
        edits_desc.push(format!("{:?}", e));
        let u = apply_edit(&mut gw, &e);
        if !edited.contains(&u) {
          edited.push(u);
        }
      }
    }
    if edited.is_empty() {
      return;
    }
    if has_context_conflict(&gw) {
      return;
    }
    // a caller may name a changed module by any specifier that redirects to
    // it (the head of a redirect chain it imports)
    let reload_names: Vec<String> = edited
      .iter()
      .map(|u| {
        let target = url(u);
        let aliases: Vec<String> = g
          .redirects
          .keys()
          .filter(|k| *g.resolve(k) == target)
          .map(|k| k.to_string())
          .collect();
        if !aliases.is_empty() && rng.coin() {
          acc.count("reloads_named_by_a_redirecting_specifier");
          rng.pick(&aliases).clone()
        } else {
          u.clone()
        }
      })
      .collect();
    history.push(json!({"edits": edits_desc, "reload": reload_names}));
    ever_reloaded.extend(edited.iter().cloned());
    acc.eval();
    let before = entry_views(&g);
    let world = gw.to_world();
    let loader = ScriptedLoader::new(&world);
    let ctx = json!({"world_after_edits": gw.to_json(), "history": history, "kind": format!("{:?}", kind)});
    if let Err(p) = catch(|| {
      run_build_with_analyzer(&mut g, &[], &[], &loader, &cfg, None, Exec::Inline, Some(&reload_names), analyzer)
    }) {
      acc.violation(format!("panic/{}", p.signature()), p.message.clone(), ctx);
      return;
    }
    // from scratch on the new sources
    let loader_s = ScriptedLoader::new(&world);
    let mut s = ModuleGraph::new(kind);
    if catch(|| {
      run_build(&mut s, &gw.roots, &gw.imports, &loader_s, &cfg, None, Exec::Inline, None)
    })
    .is_err()
    {
      return;
    }
    acc.nontrivial(hash64(&(&gw, format!("{:?}", history))));
    acc.count(&format!("history_len:{}", history.len()));
    let after = entry_views(&g);
    let scratch = entry_views(&s);
    for (spec, sv) in &scratch {
      match after.get(spec) {
        None => acc.violation(
          format!("reload≠scratch/reachable-entry-absent/{:?}", kind),
          format!("{} is in the from-scratch graph but not in the reloaded one", spec),
          ctx.clone(),
        ),
        Some(av) => {
          if av.body != sv.body {
            let was_reloaded = edited.contains(spec);
            let class = |v: &Value| -> String {
              v.get("error_class")
                .and_then(|c| c.as_str())
                .map(|s| s.to_string())
                .unwrap_or_else(|| v["kind"].as_str().unwrap_or("module").to_string())
            };
            let root_leniency = ever_reloaded.contains(spec)
              && class(&sv.body) == "err:unsupported-media-type"
              && !class(&av.body).starts_with("err:");
            acc.violation(
              if root_leniency {
                "reload≠scratch/root-leniency".to_string()
              } else {
                format!(
                  "reload≠scratch/entry-differs/{}-vs-{}/{}",
                  class(&av.body),
                  class(&sv.body),
                  if was_reloaded { "reloaded-specifier" } else { "other-specifier" }
                )
              },
              format!("{}: reloaded {} vs from scratch {}", spec, av.body, sv.body),
              ctx.clone(),
            );
          } else if av.referrer != sv.referrer && sv.referrer.is_some() {
            let lost = av.referrer.as_deref() == Some("");
            // the first requester may legitimately differ between a BFS from
            // scratch and an incremental history; only a *lost* referrer on a
            // specifier that has importers is reported
            if lost && edited.contains(spec) {
              acc.violation(
                "reload≠scratch/error-referrer-lost",
                format!(
                  "{}: error entry has no referrer after reload, from scratch {:?}",
                  spec, sv.referrer
                ),
                ctx.clone(),
              );
            }
          }
        }
      }
    }
    for (a, b) in redirects_of(&s) {
      if redirects_of(&g).get(&a) != Some(&b) {
        acc.violation(
          "reload≠scratch/redirect-missing",
          format!("{} -> {}", a, b),
          ctx.clone(),
        );
      }
    }
    // entries that are no longer reachable may remain but are never altered
    for (spec, av) in &after {
      if !scratch.contains_key(spec) && !edited.contains(spec) {
        acc.count("stale_entries_checked");
        match before.get(spec) {
          Some(bv) if bv == av => {}
          Some(bv) => acc.violation(
            "reload/unreachable-entry-altered",
            format!("{}: {} -> {}", spec, bv.body, av.body),
            ctx.clone(),
          ),
          None => {
            // new but unreachable from the roots in the new sources: it was
            // loaded as a consequence of reloading a specifier that is itself
            // no longer reachable; allowed ("may remain")
          }
        }
      }
    }
    if i < 2 {
      acc.sample(json!({"history": history, "kind": format!("{:?}", kind), "roots": gw.roots}));
    }
  }
}

// ------------------------------------------------------------ registry worlds

/// rename the scopes and application modules of a registry world so that two
/// worlds can be merged without sharing a package
fn rename_reg_world(w: &crate::reg::RegWorld) -> crate::reg::RegWorld {
  use crate::reg::Imp;
  let rn = |s: &str| -> String {
    s.replace("@s/", "@u/").replace("@t/", "@v/").replace("file:///main.ts", "file:///main_b.ts").replace("file:///second.ts", "file:///second_b.ts")
  };
  let ri = |i: &Imp| match i {
    Imp::Static(t) => Imp::Static(rn(t)),
    Imp::Dynamic(t) => Imp::Dynamic(rn(t)),
    Imp::Text(t) => Imp::Text(rn(t)),
    Imp::JsonAttr(t) => Imp::JsonAttr(rn(t)),
    Imp::TsTypes(t, ty) => Imp::TsTypes(rn(t), rn(ty)),
  };
  let mut o = w.clone();
  for p in o.pkgs.iter_mut() {
    p.name = rn(&p.name);
    for v in p.versions.iter_mut() {
      for f in v.files.iter_mut() {
        f.imports = f.imports.iter().map(ri).collect();
      }
    }
  }
  o.app = o.app.iter().map(|(u, im)| (rn(u), im.iter().map(ri).collect())).collect();
  o.roots = o.roots.iter().map(|r| rn(r)).collect();
  o.lock_selected = o.lock_selected.iter().map(|(r, v)| (rn(r), v.clone())).collect();
  o.excluded = o.excluded.iter().map(|e| rn(e)).collect();
  o.cached_manifests = o.cached_manifests.iter().map(|(n, v)| (rn(n), v.clone())).collect();
  o
}

fn packages_view(g: &mut ModuleGraph) -> Value {
  let mappings: BTreeMap<String, String> = g.packages.mappings().iter().map(|(k, v)| (k.to_string(), v.to_string())).collect();
  let deps: BTreeMap<String, std::collections::BTreeSet<String>> =
    g.packages.packages_with_deps().map(|(nv, d)| (nv.to_string(), d.map(|x| x.to_string()).collect())).collect();
  let yanked: std::collections::BTreeSet<String> = g.packages.used_yanked_packages().map(|n| n.to_string()).collect();
  json!({"mappings": mappings, "packages_with_deps": deps, "used_yanked": yanked})
}

/// Incremental vs at-once on registry worlds whose successive builds use
/// disjoint packages (so that version unification, which is first-come by
/// design, cannot differ) but share npm requirements.
fn reg_partition_case(i: usize, seed: u64, acc: &mut Acc) {
  use crate::reg::*;
  let mut rng = Rng::new(seed).fork(i as u64 ^ 0xC19_7);
  let mut a = gen_reg_world(&mut rng);
  let mut b = rename_reg_world(&gen_reg_world(&mut rng));
  // cache-busting restarts reload every package of an at-once build, which a
  // follow-up build cannot do: keep stale metadata out of this slice
  a.reload_only_versions.clear();
  b.reload_only_versions.clear();
  a.app[0].1.retain(|i| !i.text().ends_with("@3"));
  b.app[0].1.retain(|i| !i.text().ends_with("@3"));
  // both groups use the same npm requirement somewhere
  if rng.coin() {
    a.app[0].1.push(Imp::Static("npm:chalk@5".into()));
  }
  let file_roots = |w: &RegWorld| -> Vec<String> { w.roots.iter().filter(|r| r.starts_with("file:")).cloned().collect() };
  let (ra, rb) = (file_roots(&a), file_roots(&b));
  let mut merged = a.clone();
  merged.pkgs.extend(b.pkgs.clone());
  merged.app.extend(b.app.clone());
  merged.lock_selected.extend(b.lock_selected.clone());
  merged.excluded.extend(b.excluded.clone());
  merged.cached_manifests.extend(b.cached_manifests.clone());
  merged.no_npm_resolver = false;
  let kind = *rng.pick(&[GraphKind::All, GraphKind::CodeOnly]);
  let world = merged.to_world();
  let build = |steps: &[Vec<String>]| -> Result<ModuleGraph, PanicInfo> {
    let loader = ScriptedLoader::new(&world);
    let mut graph = ModuleGraph::new(kind);
    for (req, ver) in &merged.lock_selected {
      let r = deno_semver::package::PackageReq::from_str(req).unwrap();
      graph.packages.add_nv(
        r.clone(),
        deno_semver::package::PackageNv { name: r.name.clone(), version: deno_semver::Version::parse_standard(ver).unwrap() },
      );
    }
    let cfg = BuildCfg {
      kind,
      npm: Some(ScriptedNpmResolver::default()),
      version_resolver: Some(merged.version_resolver()),
      prefer_cached_jsr: merged.prefer_cached,
      ..Default::default()
    };
    catch(|| {
      for st in steps {
        run_build(&mut graph, st, &[], &loader, &cfg, None, Exec::Inline, None);
      }
    })?;
    Ok(graph)
  };
  let ctx = json!({"registry_worlds": [a.to_json(), b.to_json()], "kind": format!("{:?}", kind)});
  for (first, second) in [(&ra, &rb), (&rb, &ra)] {
    if first.is_empty() || second.is_empty() {
      continue;
    }
    acc.eval();
    let all: Vec<String> = first.iter().chain(second.iter()).cloned().collect();
    let (mut at_once, mut incr) = match (build(&[all.clone()]), build(&[first.clone(), second.clone()])) {
      (Ok(x), Ok(y)) => (x, y),
      (Err(p), _) | (_, Err(p)) => {
        acc.violation(format!("panic/{}", p.signature()), p.message, ctx.clone());
        continue;
      }
    };
    acc.count("registry_partitions_compared");
    if !at_once.packages.mappings().is_empty() {
      acc.nontrivial(hash64(&(ctx.to_string(), first.clone())));
    }
    let w = |d: Value| json!({"ctx": ctx, "first_build": first, "second_build": second, "detail": d});
    let (va, vi) = (entry_views(&at_once), entry_views(&incr));
    if va != vi {
      let differing: Vec<&String> = va.keys().chain(vi.keys()).filter(|k| va.get(*k) != vi.get(*k)).collect();
      acc.violation(
        "registry/incremental≠at-once/entries",
        format!("{:?}", differing.iter().take(6).collect::<Vec<_>>()),
        w(json!({})),
      );
    }
    if redirects_of(&at_once) != redirects_of(&incr) {
      acc.violation("registry/incremental≠at-once/redirects", "", w(json!({"at_once": redirects_of(&at_once), "incremental": redirects_of(&incr)})));
    }
    let (pa, pi) = (packages_view(&mut at_once), packages_view(&mut incr));
    if pa != pi {
      let field = ["mappings", "packages_with_deps", "used_yanked"].iter().find(|f| pa[**f] != pi[**f]).copied().unwrap_or("?");
      acc.violation(
        format!("registry/incremental≠at-once/package-table/{}", field),
        format!("at once {} vs incremental {}", pa[field], pi[field]).chars().take(400).collect::<String>(),
        w(json!({})),
      );
    }
    if pa["packages_with_deps"].as_object().is_some_and(|o| o.values().any(|v| v.as_array().is_some_and(|a| a.iter().any(|x| x.as_str().is_some_and(|s| s.starts_with("npm:")))))) {
      acc.count("registry_partitions_with_npm_dependencies_of_packages");
    }
  }
}

/// Follow-up build that meets stale package metadata. A fresh build restarts
/// with cache busting, a follow-up build (the graph already has roots)
/// refreshes the package in place and retries the requirement where it stood.
/// The family is chosen so that both give the same selections by
/// construction: the version that only the refreshed metadata lists (1.2.0)
/// is never the best match of a requirement the stale metadata can already
/// satisfy (1.3.0 is in both).
fn stale_metadata_case(i: usize, seed: u64, acc: &mut Acc) {
  use crate::reg::*;
  let mut rng = Rng::new(seed).fork(i as u64 ^ 0xC19_5);
  let ver = |v: &str| RVer {
    version: v.to_string(),
    yanked: false,
    date: 0,
    exports: Exports::Map(vec![(".".into(), "./mod.ts".into())]),
    files: vec![RFile { path: "/mod.ts".into(), imports: vec![] }],
    module_graph2: None,
    module_graph1: None,
  };
  let needs_refresh = ["1.2.0", "~1.2", "~1.2.0", "=1.2.0"];
  let satisfiable = ["^1", "*", "1", "^1.0.0", "1.3.0", "1.0.0", "~1.3", "^1.1"];
  let mut reqs: Vec<&str> = vec![*rng.pick(&needs_refresh)];
  for _ in 0..rng.range(1, 3) {
    reqs.push(*rng.pick(&satisfiable));
  }
  if rng.coin() {
    reqs.push(*rng.pick(&needs_refresh));
  }
  rng.shuffle(&mut reqs);
  reqs.dedup();
  let second: Vec<Imp> = reqs
    .iter()
    .map(|r| if rng.chance(1, 6) { Imp::Dynamic(format!("jsr:@s/a@{}", r)) } else { Imp::Static(format!("jsr:@s/a@{}", r)) })
    .collect();
  let first: Vec<Imp> = if rng.coin() { vec![Imp::Static("jsr:@s/b@1".into())] } else { vec![] };
  let w = RegWorld {
    pkgs: vec![
      RPkg { name: "@s/a".into(), versions: vec![ver("1.0.0"), ver("1.3.0")] },
      RPkg { name: "@s/b".into(), versions: vec![ver("1.0.0")] },
    ],
    app: vec![("file:///first.ts".into(), first), ("file:///second.ts".into(), second)],
    roots: vec!["file:///first.ts".into(), "file:///second.ts".into()],
    reload_only_versions: vec![("@s/a".into(), ver("1.2.0"))],
    ..Default::default()
  };
  let world = w.to_world();
  let kind = GraphKind::All;
  let build = |steps: &[Vec<String>]| -> Result<ModuleGraph, PanicInfo> {
    let loader = ScriptedLoader::new(&world);
    let mut graph = ModuleGraph::new(kind);
    let cfg = BuildCfg { kind, npm: Some(ScriptedNpmResolver::default()), version_resolver: Some(w.version_resolver()), ..Default::default() };
    catch(|| {
      for st in steps {
        run_build(&mut graph, st, &[], &loader, &cfg, None, Exec::Inline, None);
      }
    })?;
    Ok(graph)
  };
  let ctx = json!({"stale_metadata_world": w.to_json(), "second_build_requirements": reqs});
  acc.eval();
  let (mut at_once, mut incr) = match (
    build(&[vec!["file:///first.ts".into(), "file:///second.ts".into()]]),
    build(&[vec!["file:///first.ts".into()], vec!["file:///second.ts".into()]]),
  ) {
    (Ok(x), Ok(y)) => (x, y),
    (Err(p), _) | (_, Err(p)) => {
      acc.violation(format!("panic/{}", p.signature()), p.message, ctx);
      return;
    }
  };
  acc.count("stale_metadata_follow_up_builds_compared");
  acc.nontrivial(hash64(&ctx.to_string()));
  let (pa, pi) = (packages_view(&mut at_once), packages_view(&mut incr));
  if pa["mappings"] != pi["mappings"] {
    acc.violation(
      "registry/follow-up-build-with-stale-metadata/selections-differ",
      format!("at once {} vs follow-up {}", pa["mappings"], pi["mappings"]),
      json!({"ctx": ctx}),
    );
  }
  let (va, vi) = (entry_views(&at_once), entry_views(&incr));
  if va != vi {
    let differing: Vec<&String> = va.keys().chain(vi.keys()).filter(|k| va.get(*k) != vi.get(*k)).collect();
    acc.violation(
      "registry/follow-up-build-with-stale-metadata/entries-differ",
      format!("{:?}", differing.iter().take(6).collect::<Vec<_>>()),
      json!({"ctx": ctx}),
    );
  }
}

pub fn run(tier: Tier, seed: u64) -> i32 {
  let mut rep = Report::new("C19", tier, seed);
  rep.rule = "two workloads on the real builder. (1) every order-preserving partition of a generated world's root list into 2-3 successive build() calls on one graph \
    vs the single-call build: entries (serialised module JSON; errors by class+message), redirects, roots; then build() again with a random subset of known roots: serialised graph unchanged and zero loader calls. \
    (2) histories of 1-4 steps: random edit script on loaded JS/TS modules (add/remove import, break/unbreak syntax, delete/restore) then reload(edited specifiers), compared with a from-scratch build of the edited sources: \
    every entry of the from-scratch graph must be identical in the reloaded graph, its redirects present, and entries outside it unchanged. \
    (3) registry worlds: two generated registry worlds over disjoint package scopes (so that first-come version unification cannot differ; no stale metadata) sharing npm requirements, built at once and in two successive builds in both orders: entries, redirects and the package table (mappings, packages_with_deps, used yanked versions) must be equal. \
    (4) follow-up builds that meet stale package metadata (a version only the refreshed meta.json lists, chosen so that it is never the best match of a requirement the stale metadata already satisfies): the requirement is refreshed and retried in place, and selections and entries must equal the at-once build (which restarts with cache busting). non-trivial = >= 2 builds or >= 1 effective edit; distinct by (world, partition | history)"
    .into();
  rep.assumptions = vec![
    "error entries are compared by class and message; a referrer is only required not to be lost (the first requester may differ between histories)".into(),
    "edits touch JS/TS modules served by extension (the statement's 'sources changed')".into(),
  ];
  rep.min_nontrivial = tier.pick(500, 20_000);
  rep.floor("rebuilds_with_known_roots", 200);
  rep.floor("history_len:2", 50);
  let n1 = tier.pick(12000, 2560000);
  let mut acc = par_run(n1, |i, acc| partition_case(i, seed, acc));
  let n2 = tier.pick(20000, 3840000);
  let acc2 = par_run(n2, |i, acc| reload_case(i, seed, acc));
  acc.merge(acc2);
  let n3 = tier.pick(3000, 200_000);
  let acc3 = par_run(n3, |i, acc| reg_partition_case(i, seed, acc));
  acc.merge(acc3);
  let n4 = tier.pick(2000, 100_000);
  let acc4 = par_run(n4, |i, acc| stale_metadata_case(i, seed, acc));
  acc.merge(acc4);
  rep.floor("stale_metadata_follow_up_builds_compared", tier.pick(1500, 80_000));
  rep.floor("registry_partitions_compared", tier.pick(2000, 100_000));
  rep.floor("registry_partitions_with_npm_dependencies_of_packages", tier.pick(200, 10_000));
  rep.finish(acc)
}
