// C04 — build results do not depend on load completion order or on the run.
use crate::common::*;
use crate::r#gen::*;
use crate::reg::*;
use crate::sched::*;
use crate::world::*;
use deno_graph::GraphKind;
use deno_graph::ModuleGraph;
use serde_json::Value;
use serde_json::json;

#[derive(Clone)]
pub enum W4 {
  G(GWorld, BuildCfg),
  R(RegWorld),
}

#[derive(Clone, Debug)]
pub enum Mode {
  /// default executor inside tokio, futures ready at once
  Tokio,
  /// inline executor, ready at once (fresh hasher state when run in a new thread)
  Inline,
  Sched { strategy: Strategy, spawn_tasks: bool },
}

pub struct Run4 {
  pub outcome: Value,
  pub sched: Option<SchedOutcome>,
}

fn canonical(graph: &mut ModuleGraph, locker: &RecLocker) -> Value {
  let gj = graph_json(graph);
  let mut errors: Vec<String> = graph
    .module_errors()
    .map(|e| format!("{} :: {}", e.specifier(), e.to_string_with_range()))
    .collect();
  errors.sort();
  let mut lock_writes: Vec<String> = locker.events.iter().map(|e| format!("{:?}", e)).collect();
  lock_writes.sort();
  let mut deps: Vec<String> = graph
    .packages
    .packages_with_deps()
    .map(|(nv, d)| {
      let mut d: Vec<String> = d.map(|x| x.to_string()).collect();
      d.sort();
      format!("{} -> {:?}", nv, d)
    })
    .collect();
  deps.sort();
  let yanked: Vec<String> = graph.packages.used_yanked_packages().map(|n| n.to_string()).collect();
  let exports: Vec<String> = graph
    .packages
    .mappings()
    .values()
    .map(|nv| format!("{} {:?}", nv, graph.packages.package_exports(nv)))
    .collect::<std::collections::BTreeSet<_>>()
    .into_iter()
    .collect();
  json!({
    "graph": gj, "errors_with_ranges": errors, "lockfile_writes": lock_writes,
    "package_deps": deps, "used_yanked": yanked, "package_exports": exports,
    "npm_dep_graph_ok": graph.npm_dep_graph_result.is_ok(),
  })
}

pub fn run_mode(w: &W4, world: &World, mode: &Mode) -> Result<Run4, String> {
  let mut loader = ScriptedLoader::new(world);
  let sched = match mode {
    Mode::Sched { spawn_tasks, .. } => Some(Sched::new(*spawn_tasks)),
    _ => None,
  };
  loader.sched = sched.clone();
  let mut locker = RecLocker::default();
  let (mut graph, roots, imports, cfg): (ModuleGraph, Vec<String>, Vec<(String, Vec<String>)>, BuildCfg) = match w {
    W4::G(gw, cfg) => (
      ModuleGraph::new(cfg.kind),
      gw.roots.clone(),
      gw.imports.clone(),
      cfg.clone(),
    ),
    W4::R(rw) => {
      let mut g = ModuleGraph::new(GraphKind::All);
      for (req, ver) in &rw.lock_selected {
        let r = deno_semver::package::PackageReq::from_str(req).unwrap();
        g.packages.add_nv(
          r.clone(),
          deno_semver::package::PackageNv {
            name: r.name.clone(),
            version: deno_semver::Version::parse_standard(ver).unwrap(),
          },
        );
      }
      (
        g,
        rw.roots.clone(),
        vec![],
        BuildCfg {
          kind: GraphKind::All,
          npm: (!rw.no_npm_resolver).then(ScriptedNpmResolver::default),
          version_resolver: Some(rw.version_resolver()),
          prefer_cached_jsr: rw.prefer_cached,
          ..Default::default()
        },
      )
    }
  };
  let exec = match (mode, &sched) {
    (Mode::Tokio, _) => Exec::Tokio,
    (Mode::Inline, _) => Exec::Inline,
    (Mode::Sched { strategy, .. }, Some(s)) => Exec::Sched(s, strategy.clone(), 2_000_000),
    _ => unreachable!(),
  };
  let r = catch(|| {
    run_build(
      &mut graph,
      &roots,
      &imports,
      &loader,
      &cfg,
      Some(&mut locker),
      exec,
      None,
    )
  });
  match r {
    Err(p) => Err(format!("panic/{}", p.signature())),
    Ok(br) => {
      if !br.completed {
        let so = br.sched.unwrap();
        return Err(if so.deadlock {
          "no-progress/deadlock".to_string()
        } else {
          "no-progress/step-budget".to_string()
        });
      }
      Ok(Run4 {
        outcome: canonical(&mut graph, &locker),
        sched: br.sched,
      })
    }
  }
}

fn first_diff(a: &Value, b: &Value, path: String) -> Option<String> {
  match (a, b) {
    (Value::Object(x), Value::Object(y)) => {
      for k in x.keys().chain(y.keys()) {
        match (x.get(k), y.get(k)) {
          (Some(p), Some(q)) => {
            if let Some(d) = first_diff(p, q, format!("{}/{}", path, k)) {
              return Some(d);
            }
          }
          _ => return Some(format!("{}/{} (present on one side only)", path, k)),
        }
      }
      None
    }
    (Value::Array(x), Value::Array(y)) => {
      if x.len() != y.len() {
        return Some(format!("{} (array length {} vs {})", path, x.len(), y.len()));
      }
      for (i, (p, q)) in x.iter().zip(y.iter()).enumerate() {
        if let Some(d) = first_diff(p, q, format!("{}/{}", path, i)) {
          return Some(d);
        }
      }
      None
    }
    _ => {
      if a != b {
        Some(format!("{}: {} vs {}", path, a, b).chars().take(300).collect())
      } else {
        None
      }
    }
  }
}

fn diff_class(path: &str) -> &'static str {
  if path.contains("errors_with_ranges") {
    "error-referrer-or-text"
  } else if path.contains("lockfile_writes") {
    "lockfile-writes"
  } else if path.contains("/packages") || path.contains("package_") || path.contains("used_yanked") {
    "package-resolution"
  } else if path.contains("/redirects") {
    "redirects"
  } else if path.contains("/modules") {
    "modules"
  } else {
    "other"
  }
}

fn w_json(w: &W4) -> Value {
  match w {
    W4::G(gw, cfg) => json!({"world": gw.to_json(), "build": cfg.to_json()}),
    W4::R(rw) => json!({"registry_world": rw.to_json()}),
  }
}

/// Hand-shaped worlds that emphasise what can race.
fn racy_module_world(rng: &mut Rng) -> GWorld {
  // root dynamically imports a..d; each statically imports shared targets
  // (one missing, one erroring, one fine); plus two aliases redirecting to one
  // module, plus a second root overlapping with the first
  let base = "https://h.test/";
  let mk = |url: &str, items: Vec<Item>, serve: Serve| GModule {
    url: url.to_string(),
    media: Media::Ts,
    via_header: false,
    items,
    x_ts_types: None,
    source_map: None,
    broken: false,
    serve,
  };
  let it = |form: Form, t: &str| Item {
    form,
    text: t.to_string(),
    deno_types: None,
  };
  let n_branches = rng.range(2, 4);
  let mut modules = vec![];
  let mut root_items = vec![];
  let shared = ["missing.ts", "err.ts", "fine.ts", "alias_a.ts", "alias_b.ts"];
  for b in 0..n_branches {
    let name = format!("{}b{}.ts", base, b);
    root_items.push(it(
      if rng.chance(3, 4) { Form::DynImport } else { Form::Import },
      &name,
    ));
    let mut items = vec![];
    for s in shared.iter() {
      if rng.chance(2, 3) {
        items.push(it(
          *rng.pick(&[Form::Import, Form::ExportStar, Form::DynImport, Form::ImportType]),
          &format!("{}{}", base, s),
        ));
      }
    }
    rng.shuffle(&mut items);
    modules.push(mk(&name, items, Serve::Module));
  }
  modules.insert(0, mk(&format!("{}root.ts", base), root_items, Serve::Module));
  modules.push(mk(&format!("{}err.ts", base), vec![], Serve::Err));
  modules.push(mk(&format!("{}fine.ts", base), vec![it(Form::Import, &format!("{}missing.ts", base))], Serve::Module));
  modules.push(mk(&format!("{}alias_a.ts", base), vec![], Serve::Redirect(format!("{}target.ts", base))));
  modules.push(mk(&format!("{}alias_b.ts", base), vec![], Serve::ModuleOtherFinal(format!("{}target.ts", base))));
  modules.push(mk(&format!("{}target.ts", base), vec![it(Form::Import, &format!("{}missing.ts", base))], Serve::Module));
  let mut roots = vec![format!("{}root.ts", base)];
  if rng.coin() {
    roots.push(format!("{}b1.ts", base));
  }
  if rng.coin() {
    roots.push(format!("{}fine.ts", base));
  }
  GWorld {
    modules,
    roots,
    imports: vec![],
    resolver: None,
  }
}

/// Hand-shaped registry world whose outcome is order-sensitive downstream of
/// the version manifests: two packages entered in one pass whose entry
/// modules ask for overlapping requirements of a third package (version
/// unification is first-come), and a shared failing import (first referrer).
fn racy_registry_world(rng: &mut Rng) -> RegWorld {
  let ver = |v: &str, imports: Vec<Imp>| RVer {
    version: v.to_string(),
    yanked: false,
    date: 0,
    exports: Exports::Map(vec![(".".into(), "./mod.ts".into())]),
    files: vec![RFile { path: "/mod.ts".into(), imports }],
    module_graph2: None,
    module_graph1: None,
  };
  let loose = *rng.pick(&["^1.0.0", "*", "1", "^1"]);
  let tight = *rng.pick(&["1.0.0", "~1.0.0", "=1.0.0"]);
  let shared_missing = "https://h.test/missing.ts";
  let mut a_imports = vec![Imp::Static(format!("jsr:@s/c@{}", loose))];
  let mut b_imports = vec![Imp::Static(format!("jsr:@s/c@{}", tight))];
  if rng.coin() {
    a_imports.push(Imp::Static(shared_missing.into()));
    b_imports.push(Imp::Static(shared_missing.into()));
  }
  if rng.coin() {
    std::mem::swap(&mut a_imports, &mut b_imports);
  }
  let pkgs = vec![
    RPkg { name: "@s/a".into(), versions: vec![ver("1.0.0", a_imports)] },
    RPkg { name: "@s/b".into(), versions: vec![ver("1.0.0", b_imports)] },
    RPkg { name: "@s/ab".into(), versions: vec![ver("1.0.0", vec![Imp::Static(format!("jsr:@s/c@{}", loose))])] },
    RPkg { name: "@s/c".into(), versions: vec![ver("1.0.0", vec![]), ver("1.1.0", vec![]), ver("1.2.0", vec![])] },
  ];
  let mut main: Vec<Imp> = vec![Imp::Static("jsr:@s/a@1".into()), Imp::Static("jsr:@s/b@1".into())];
  if rng.coin() {
    main.push(Imp::Static("jsr:@s/ab@1".into()));
  }
  if rng.chance(1, 3) {
    main.push(Imp::Dynamic("jsr:@s/c@1.1.0".into()));
  }
  rng.shuffle(&mut main);
  RegWorld {
    pkgs,
    app: vec![("file:///main.ts".to_string(), main)],
    roots: vec!["file:///main.ts".to_string()],
    ..Default::default()
  }
}

fn case(i: usize, seed: u64, tier: Tier, acc: &mut Acc) {
  let mut rng = Rng::new(seed).fork(i as u64 ^ 0xC04);
  let w: W4 = match i % 4 {
    0 => {
      let gw = racy_module_world(&mut rng);
      let cfg = BuildCfg {
        kind: *rng.pick(&[GraphKind::All, GraphKind::CodeOnly]),
        ..Default::default()
      };
      W4::G(gw, cfg)
    }
    1 => {
      let gcfg = GenCfg {
        max_modules: rng.range(3, 7),
        max_items: rng.range(1, 4),
        ..Default::default()
      };
      let gw = gen_world(&mut rng, &gcfg);
      let cfg = BuildCfg {
        kind: *rng.pick(&[GraphKind::All, GraphKind::CodeOnly, GraphKind::TypesOnly]),
        resolver: gw.map_resolver(),
        ..Default::default()
      };
      W4::G(gw, cfg)
    }
    2 if i % 8 == 2 => W4::R(racy_registry_world(&mut rng)),
    _ => {
      let mut rw = gen_reg_world(&mut rng);
      if i % 4 == 3 {
        rw.prefer_cached = true;
        rw.cached_manifests.clear();
        for p in &rw.pkgs {
          for v in &p.versions {
            if rng.coin() {
              rw.cached_manifests.push((p.name.clone(), v.version.clone()));
            }
          }
        }
      }
      W4::R(rw)
    }
  };
  let world = match &w {
    W4::G(gw, _) => gw.to_world(),
    W4::R(rw) => rw.to_world(),
  };
  let ctx = w_json(&w);
  let reference = match run_mode(&w, &world, &Mode::Tokio) {
    Ok(r) => r,
    Err(e) => {
      acc.violation(format!("reference-run/{}", e), "reference run failed", ctx);
      return;
    }
  };
  let mut outcomes_seen = 1usize;
  let mut distinct_schedules: std::collections::BTreeSet<Vec<usize>> = Default::default();
  let mut compare = |acc: &mut Acc, run: Result<Run4, String>, how: String, class: &str| {
    acc.eval();
    match run {
      Err(e) => acc.violation(
        format!("{}/{}", class, e),
        format!("run under {} failed: {}", how, e),
        json!({"ctx": ctx, "schedule": how}),
      ),
      Ok(r) => {
        if let Some(so) = &r.sched {
          let ids: Vec<usize> = so.choices.iter().map(|c| c.0).collect();
          if so.max_width >= 2 {
            acc.nontrivial(hash64(&(ctx.to_string(), &ids, &how)));
          }
          distinct_schedules.insert(ids);
          acc.max("max_width", so.max_width as u64);
        }
        if r.outcome != reference.outcome {
          outcomes_seen += 1;
          let d = first_diff(&reference.outcome, &r.outcome, String::new())
            .unwrap_or_else(|| "?".into());
          acc.violation(
            format!("outcome-differs/{}/{}", class, diff_class(&d)),
            format!("first difference at {}", d),
            json!({"ctx": ctx, "schedule": how,
              "choices": r.sched.as_ref().map(|s| s.choices.iter().map(|c| format!("{}/{} {}", c.0, c.1, c.2)).collect::<Vec<_>>())}),
          );
        }
      }
    }
  };
  // (i) schedules
  for spawn in [false, true] {
    for strat in [Strategy::Fifo, Strategy::Lifo] {
      let how = format!("{:?}/spawn={}", strat, spawn);
      let r = run_mode(
        &w,
        &world,
        &Mode::Sched {
          strategy: strat,
          spawn_tasks: spawn,
        },
      );
      compare(acc, r, how, "schedule");
    }
  }
  let n_random = tier.pick(6, 40);
  for k in 0..n_random {
    let strat = Strategy::Random {
      seed: rng.next(),
      max_extra: (k % 4) as u32,
    };
    let spawn = k % 2 == 0;
    let how = format!("{:?}/spawn={}", strat, spawn);
    let r = run_mode(
      &w,
      &world,
      &Mode::Sched {
        strategy: strat,
        spawn_tasks: spawn,
      },
    );
    compare(acc, r, how, "schedule");
  }
  // systematic enumeration (depth-first over the choice tree) up to a budget
  let max_runs = tier.pick(60, 1500);
  let mut enumerated = 0usize;
  let (runs, exhaustive) = enumerate_schedules(max_runs, |prefix| {
    let r = run_mode(
      &w,
      &world,
      &Mode::Sched {
        strategy: Strategy::Prefix(prefix.to_vec()),
        spawn_tasks: false,
      },
    );
    let choices = r
      .as_ref()
      .ok()
      .and_then(|r| r.sched.as_ref().map(|s| s.choices.clone()))
      .unwrap_or_default();
    enumerated += 1;
    compare(acc, r, format!("prefix {:?}", prefix), "schedule");
    choices
  });
  acc.count_n("enumerated_schedules", runs as u64);
  if exhaustive {
    acc.count("worlds_exhaustively_enumerated");
  }
  // (ii) hasher variation: fresh threads get fresh RandomState keys
  let threads = tier.pick(3, 8);
  let repeats = tier.pick(3, 6);
  let results: Vec<Result<Run4, String>> = std::thread::scope(|s| {
    let hs: Vec<_> = (0..threads)
      .map(|_| {
        let w = &w;
        let world = &world;
        s.spawn(move || {
          (0..repeats)
            .map(|_| run_mode(w, world, &Mode::Inline))
            .collect::<Vec<_>>()
        })
      })
      .collect();
    hs.into_iter().flat_map(|h| h.join().unwrap_or_default()).collect()
  });
  for r in results {
    acc.count("hasher_runs");
    compare(acc, r, "inline executor, fresh thread (hasher state)".into(), "hasher");
  }
  acc.count_n("distinct_release_sequences", distinct_schedules.len() as u64);
  acc.max("distinct_outcomes_per_world", outcomes_seen as u64);
  acc.count("worlds");
  if i < 2 {
    acc.sample(json!({"ctx": ctx, "distinct_schedules": distinct_schedules.len(),
      "example_schedule": distinct_schedules.iter().next()}));
  }
}

pub fn run(tier: Tier, seed: u64) -> i32 {
  let mut rep = Report::new("C04", tier, seed);
  rep.rule = "case = (world, schedule or hasher run). Worlds: hand-shaped racy module worlds (several dynamic branches reaching shared missing/erroring targets, two aliases of one module, overlapping roots), \
    generated module worlds, generated registry worlds (several requirements per package, lockfile, content loads), registry worlds in prefer_cached mode with partially cached manifests. \
    Reference outcome = the crate's default executor under tokio with immediately-ready loads. Every other execution of the same world must give the identical canonical outcome \
    (serialised graph, every error entry with its referrer range, package mappings/exports/dependencies/yanked set, multiset of lockfile writes, npm dependency-graph result): \
    (i) the deterministic scheduler releases the loader's futures one at a time in FIFO, LIFO, seeded random order with 0-3 extra Pending polls per future, with spawned tasks as separate units or inline, \
    and enumerates release orders depth-first up to a per-world budget; (ii) the same build repeated in fresh OS threads (fresh hasher keys). non-trivial = a schedule with >= 2 simultaneously outstanding loads; distinct by (world, release sequence)"
    .into();
  rep.assumptions = vec![
    "loader answers are fixed when the call is made; only completion order and the number of Pending polls vary".into(),
    "std RandomState keys differ per thread and per map; in-process variation only (as the property states)".into(),
  ];
  rep.min_nontrivial = tier.pick(3000, 100_000);
  rep.floor("worlds", tier.pick(300, 3000));
  rep.floor("distinct_release_sequences", tier.pick(3000, 100_000));
  rep.floor("hasher_runs", tier.pick(2000, 50_000));
  let n = tier.pick(1600, 24000);
  let acc = par_run(n, |i, acc| case(i, seed, tier, acc));
  rep.finish(acc)
}
