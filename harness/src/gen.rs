// E1 (part 2): abstract module worlds with generator-known ground truth, the
// renderer to source text, and the closure model (DESIGN Appendix A).
//
// The generator knows, by construction, what every module declares; nothing
// here calls deno_graph's parser or builder.
#![allow(dead_code)]

use crate::common::*;
use crate::world::*;
use deno_graph::GraphKind;
use serde_json::Value;
use serde_json::json;
use std::collections::BTreeMap;
use std::collections::BTreeSet;
use std::collections::VecDeque;

#[derive(Clone, Copy, Debug, PartialEq, Eq, Hash, PartialOrd, Ord)]
pub enum Media {
  Js,
  Mjs,
  Jsx,
  Ts,
  Mts,
  Tsx,
  Dts,
  Json,
  Unknown,
  /// WebAssembly module whose import section names its dependencies
  Wasm,
}

impl Media {
  pub const ALL: &'static [Media] = &[
    Media::Js,
    Media::Mjs,
    Media::Jsx,
    Media::Ts,
    Media::Mts,
    Media::Tsx,
    Media::Dts,
    Media::Json,
    Media::Unknown,
    Media::Wasm,
  ];
  pub fn ext(&self) -> &'static str {
    match self {
      Media::Js => "js",
      Media::Mjs => "mjs",
      Media::Jsx => "jsx",
      Media::Ts => "ts",
      Media::Mts => "mts",
      Media::Tsx => "tsx",
      Media::Dts => "d.ts",
      Media::Json => "json",
      Media::Unknown => "txt",
      Media::Wasm => "wasm",
    }
  }
  /// content-type used when the media type is conveyed by header on an
  /// extension-less URL (None: cannot be conveyed by header alone)
  pub fn content_type(&self) -> Option<&'static str> {
    match self {
      Media::Js => Some("application/javascript"),
      Media::Ts => Some("application/typescript"),
      Media::Jsx => Some("text/jsx"),
      Media::Tsx => Some("text/tsx"),
      Media::Json => Some("application/json"),
      Media::Unknown => Some("image/png"),
      Media::Wasm => Some("application/wasm"),
      _ => None,
    }
  }
  pub fn is_typed(&self) -> bool {
    matches!(self, Media::Ts | Media::Mts | Media::Tsx | Media::Dts)
  }
  pub fn is_declaration(&self) -> bool {
    matches!(self, Media::Dts)
  }
  pub fn is_js_like(&self) -> bool {
    !matches!(self, Media::Json | Media::Unknown | Media::Wasm)
  }
  /// modules that declare dependencies
  pub fn has_items(&self) -> bool {
    self.is_js_like() || *self == Media::Wasm
  }
  pub fn is_plain_js(&self) -> bool {
    matches!(self, Media::Js | Media::Mjs | Media::Jsx)
  }
  pub fn is_jsx(&self) -> bool {
    matches!(self, Media::Jsx | Media::Tsx)
  }
  pub fn graph_name(&self) -> &'static str {
    match self {
      Media::Js => "JavaScript",
      Media::Mjs => "Mjs",
      Media::Jsx => "JSX",
      Media::Ts => "TypeScript",
      Media::Mts => "Mts",
      Media::Tsx => "TSX",
      Media::Dts => "Dts",
      Media::Json => "Json",
      Media::Unknown => "Unknown",
      Media::Wasm => "Wasm",
    }
  }
}

/// A minimal WebAssembly binary: one function type and one function import
/// per dependency (module name = specifier text).
pub fn render_wasm(imports: &[String]) -> Vec<u8> {
  fn leb(mut n: usize, out: &mut Vec<u8>) {
    loop {
      let b = (n & 0x7f) as u8;
      n >>= 7;
      if n == 0 {
        out.push(b);
        break;
      }
      out.push(b | 0x80);
    }
  }
  let mut out = vec![0x00, 0x61, 0x73, 0x6d, 0x01, 0x00, 0x00, 0x00];
  // type section: one `() -> ()`
  out.extend([0x01, 0x04, 0x01, 0x60, 0x00, 0x00]);
  if !imports.is_empty() {
    let mut body = vec![];
    leb(imports.len(), &mut body);
    for (i, m) in imports.iter().enumerate() {
      leb(m.len(), &mut body);
      body.extend(m.as_bytes());
      let field = format!("f{}", i);
      leb(field.len(), &mut body);
      body.extend(field.as_bytes());
      body.extend([0x00, 0x00]); // func, type 0
    }
    out.push(0x02);
    leb(body.len(), &mut out);
    out.extend(body);
  }
  out
}

#[derive(Clone, Copy, Debug, PartialEq, Eq, Hash, PartialOrd, Ord)]
pub enum Form {
  /// import v from "T";
  Import,
  /// import "T";
  SideEffect,
  /// export { a } from "T";
  ExportFrom,
  /// export * from "T";
  ExportStar,
  /// await import("T");
  DynImport,
  /// import type { X } from "T";   (typed modules only)
  ImportType,
  /// export type { X } from "T";   (typed modules only)
  ExportType,
  /// import j from "T" with { type: "json" };
  ImportJson,
  /// await import("T", { with: { type: "json" } });
  DynImportJson,
  /// /// <reference path="T" />     (leading)
  RefPath,
  /// /// <reference types="T" />    (leading)
  RefTypes,
  /// // @ts-self-types="T"          (leading, untyped modules only)
  SelfTypes,
  /// /** @type {import("T").X} */   (plain JS only)
  JsDoc,
}

impl Form {
  pub const VALUE_STATIC: &'static [Form] =
    &[Form::Import, Form::SideEffect, Form::ExportFrom, Form::ExportStar];
  pub fn is_value(&self) -> bool {
    matches!(
      self,
      Form::Import
        | Form::SideEffect
        | Form::ExportFrom
        | Form::ExportStar
        | Form::DynImport
        | Form::ImportJson
        | Form::DynImportJson
    )
  }
  pub fn is_dynamic(&self) -> bool {
    matches!(self, Form::DynImport | Form::DynImportJson)
  }
  pub fn is_type_only(&self) -> bool {
    matches!(self, Form::ImportType | Form::ExportType)
  }
  pub fn is_es_item(&self) -> bool {
    self.is_value() || self.is_type_only()
  }
  pub fn attr(&self) -> Option<&'static str> {
    match self {
      Form::ImportJson | Form::DynImportJson => Some("json"),
      _ => None,
    }
  }
}

#[derive(Clone, Debug, PartialEq, Eq, Hash)]
pub struct Item {
  pub form: Form,
  /// specifier text exactly as written
  pub text: String,
  /// `// @deno-types="…"` (or @ts-types) attached to this ES item
  pub deno_types: Option<String>,
}

#[derive(Clone, Debug, PartialEq, Eq, Hash)]
pub enum Serve {
  Module,
  /// redirect chain hop: answers Redirect(to)
  Redirect(String),
  Missing,
  Err,
  External,
  /// answers Module but with this other final specifier
  ModuleOtherFinal(String),
}

#[derive(Clone, Debug, PartialEq, Eq, Hash)]
pub struct GModule {
  pub url: String,
  pub media: Media,
  /// media type conveyed by content-type header (url has no extension)
  pub via_header: bool,
  pub items: Vec<Item>,
  pub x_ts_types: Option<String>,
  /// `//# sourceMappingURL=<text>` at the end of the module
  pub source_map: Option<String>,
  /// source text does not parse
  pub broken: bool,
  pub serve: Serve,
}

#[derive(Clone, Debug, Default, PartialEq, Eq, Hash)]
pub struct GResolver {
  pub map: BTreeMap<String, String>,
  pub types_map: BTreeMap<String, String>,
  pub fail: BTreeMap<String, String>,
}

#[derive(Clone, Debug, PartialEq, Eq, Hash)]
pub struct GWorld {
  pub modules: Vec<GModule>,
  pub roots: Vec<String>,
  /// configured type imports: (referrer, specifier texts)
  pub imports: Vec<(String, Vec<String>)>,
  pub resolver: Option<GResolver>,
}

// ------------------------------------------------------------ rendering

pub fn render_module(m: &GModule) -> String {
  if m.media == Media::Json {
    return "{ \"a\": 1 }".to_string();
  }
  if m.media == Media::Unknown {
    return "\"plain text, not a module\";".to_string();
  }
  let mut s = String::new();
  // leading pragmas first
  for it in &m.items {
    match it.form {
      Form::RefPath => s.push_str(&format!("/// <reference path=\"{}\" />\n", it.text)),
      Form::RefTypes => {
        s.push_str(&format!("/// <reference types=\"{}\" />\n", it.text))
      }
      Form::SelfTypes => s.push_str(&format!("// @ts-self-types=\"{}\"\n", it.text)),
      _ => {}
    }
  }
  let mut n = 0;
  for it in &m.items {
    n += 1;
    if let Some(dt) = &it.deno_types {
      s.push_str(&format!("// @deno-types=\"{}\"\n", dt));
    }
    // syntactic variants of one semantic form, chosen by a hash of (module, specifier, position): the model
    // does not distinguish them, the builder must not either
    let variant = hash64(&(m.url.as_str(), it.text.as_str(), n, "variant")) % 12;
    let typed_any = m.media.is_typed();
    match it.form {
      Form::Import if typed_any && it.deno_types.is_none() && variant == 0 => {
        s.push_str(&format!("import v{} = require(\"{}\");\n", n, it.text))
      }
      Form::Import if typed_any && it.deno_types.is_none() && variant == 1 => {
        s.push_str(&format!("export import v{} = require(\"{}\");\n", n, it.text))
      }
      Form::Import if variant == 2 => s.push_str(&format!("import * as v{} from \"{}\";\n", n, it.text)),
      Form::Import if variant == 3 => s.push_str(&format!("import v{}, {{ w{} as x{} }} from '{}';\n", n, n, n, it.text)),
      Form::Import => s.push_str(&format!("import v{} from \"{}\";\n", n, it.text)),
      Form::SideEffect => s.push_str(&format!("import \"{}\";\n", it.text)),
      Form::ExportFrom if variant < 3 => s.push_str(&format!("export * as ns{} from \"{}\";\n", n, it.text)),
      Form::ExportFrom if variant == 3 => s.push_str(&format!("export {{ default as b{} }} from \"{}\";\n", n, it.text)),
      Form::ExportFrom => {
        s.push_str(&format!("export {{ a{} }} from \"{}\";\n", n, it.text))
      }
      Form::ExportStar => s.push_str(&format!("export * from \"{}\";\n", it.text)),
      Form::DynImport => {
        // a third of the dynamic imports of typed (non-declaration) modules
        // sit inside a namespace or a function body instead of at top level
        let typed_source = matches!(m.media, Media::Ts | Media::Mts | Media::Tsx);
        match hash64(&(m.url.as_str(), it.text.as_str(), n)) % 6 {
          0 if typed_source => s.push_str(&format!("namespace NsDyn{} {{ export const d = import(\"{}\"); }}\n", n, it.text)),
          1 => s.push_str(&format!("function fdyn{}() {{ return import(\"{}\"); }}\n", n, it.text)),
          _ => s.push_str(&format!("const d{} = await import(\"{}\");\n", n, it.text)),
        }
      }
      Form::ImportType if it.deno_types.is_none() && variant < 2 => {
        s.push_str(&format!("type Q{} = import(\"{}\").X{};\n", n, it.text, n))
      }
      Form::ImportType if it.deno_types.is_none() && variant == 2 => {
        s.push_str(&format!("declare let tq{}: typeof import(\"{}\");\n", n, it.text))
      }
      Form::ImportType if it.deno_types.is_none() && variant == 3 => {
        s.push_str(&format!("function ft{}(a: import(\"{}\").P): void {{}}\n", n, it.text))
      }
      Form::ImportType => {
        s.push_str(&format!("import type {{ T{} }} from \"{}\";\n", n, it.text))
      }
      Form::ExportType => {
        s.push_str(&format!("export type {{ U{} }} from \"{}\";\n", n, it.text))
      }
      Form::ImportJson => s.push_str(&format!(
        "import j{} from \"{}\" with {{ type: \"json\" }};\n",
        n, it.text
      )),
      Form::DynImportJson => s.push_str(&format!(
        "const dj{} = await import(\"{}\", {{ with: {{ type: \"json\" }} }});\n",
        n, it.text
      )),
      Form::JsDoc if variant < 4 => s.push_str(&format!(
        "/** @import {{ X{} }} from \"{}\" */\nlet q{};\n",
        n, it.text, n
      )),
      Form::JsDoc => s.push_str(&format!(
        "/** @type {{import(\"{}\").X{}}} */\nlet q{};\n",
        it.text, n, n
      )),
      Form::RefPath | Form::RefTypes | Form::SelfTypes => {}
    }
  }
  if m.media.is_declaration() {
    s.push_str("export declare const dd: number;\n");
  } else {
    s.push_str("export const own = 1;\n");
  }
  if m.broken {
    s.push_str("this is not ( valid javascript;;; }}}\n");
  }
  if let Some(sm) = &m.source_map {
    s.push_str(&format!("//# sourceMappingURL={}\n", sm));
  }
  s
}

impl GWorld {
  pub fn to_world(&self) -> World {
    let mut w = World::new();
    for m in &self.modules {
      let mut headers = vec![];
      if m.via_header {
        headers.push((
          "content-type".to_string(),
          m.media.content_type().unwrap().to_string(),
        ));
      }
      if let Some(t) = &m.x_ts_types {
        headers.push(("x-typescript-types".to_string(), t.clone()));
      }
      let content = if m.media == Media::Wasm {
        render_wasm(&m.items.iter().map(|i| i.text.clone()).collect::<Vec<_>>())
      } else {
        render_module(m).into_bytes()
      };
      let resp = match &m.serve {
        Serve::Module => Resp::Module {
          headers,
          content,
          final_spec: None,
        },
        Serve::ModuleOtherFinal(f) => Resp::Module {
          headers,
          content,
          final_spec: Some(f.clone()),
        },
        Serve::Redirect(t) => Resp::Redirect(t.clone()),
        Serve::Missing => continue,
        Serve::Err => Resp::Err("injected load failure".into()),
        Serve::External => Resp::External(None),
      };
      w.add(&m.url, resp);
    }
    w
  }

  pub fn map_resolver(&self) -> Option<MapResolver> {
    self.resolver.as_ref().map(|r| MapResolver {
      map: r.map.clone(),
      types_map: r.types_map.clone(),
      fail: r.fail.clone(),
      ..Default::default()
    })
  }

  pub fn to_json(&self) -> Value {
    json!({
      "roots": self.roots,
      "imports": self.imports,
      "resolver": self.resolver.as_ref().map(|r| json!({"map": r.map, "types_map": r.types_map, "fail": r.fail})),
      "modules": self.modules.iter().map(|m| json!({
        "url": m.url, "media": format!("{:?}", m.media), "via_header": m.via_header,
        "serve": format!("{:?}", m.serve), "broken": m.broken, "x_ts_types": m.x_ts_types, "source_map": m.source_map,
        "items": m.items.iter().map(|i| json!([format!("{:?}", i.form), i.text, i.deno_types])).collect::<Vec<_>>(),
        "source": if matches!(m.serve, Serve::Module | Serve::ModuleOtherFinal(_)) { render_module(m) } else { String::new() },
      })).collect::<Vec<_>>(),
    })
  }

  pub fn get(&self, u: &str) -> Option<&GModule> {
    self.modules.iter().find(|m| m.url == u)
  }
}

// ------------------------------------------------------------ model: resolution

#[derive(Clone, Debug, PartialEq, Eq)]
pub enum MRes {
  None,
  Ok(String),
  Err,
}

impl MRes {
  pub fn ok(&self) -> Option<&String> {
    match self {
      MRes::Ok(s) => Some(s),
      _ => None,
    }
  }
  pub fn is_none(&self) -> bool {
    matches!(self, MRes::None)
  }
}

/// deno_path_util::resolve_import as documented: absolute URLs parse as they
/// are, `/`, `./`, `../` prefixes join onto the referrer, anything else is an
/// error.
pub fn model_resolve_import(text: &str, referrer: &str) -> MRes {
  match url::Url::parse(text) {
    Ok(u) => MRes::Ok(u.to_string()),
    Err(url::ParseError::RelativeUrlWithoutBase)
      if text.starts_with('/') || text.starts_with("./") || text.starts_with("../") =>
    {
      match url::Url::parse(referrer).and_then(|r| r.join(text)) {
        Ok(u) => MRes::Ok(u.to_string()),
        Err(_) => MRes::Err,
      }
    }
    Err(_) => MRes::Err,
  }
}

pub fn model_resolve(
  r: Option<&GResolver>,
  text: &str,
  referrer: &str,
  types: bool,
) -> MRes {
  if let Some(r) = r {
    if r.fail.contains_key(text) {
      return MRes::Err;
    }
    if types && let Some(t) = r.types_map.get(text) {
      return MRes::Ok(url(t).to_string());
    }
    if let Some(t) = r.map.get(text) {
      return MRes::Ok(url(t).to_string());
    }
  }
  model_resolve_import(text, referrer)
}

// ------------------------------------------------------------ model: declarations

#[derive(Clone, Debug, PartialEq, Eq)]
pub struct MDep {
  pub code: MRes,
  pub typ: MRes,
  pub attr: Option<String>,
  pub is_dynamic: bool,
}

#[derive(Clone, Debug, Default, PartialEq, Eq)]
pub struct MDecl {
  /// specifier text -> dependency (in declaration order)
  pub deps: Vec<(String, MDep)>,
  pub types_dep: Option<(String, MRes)>,
}

/// What a JS/TS module declares under `kind` (DESIGN Appendix A7).
pub fn model_declarations(
  m: &GModule,
  kind: GraphKind,
  r: Option<&GResolver>,
) -> MDecl {
  let types = kind.include_types();
  let mut d = MDecl::default();
  fn entry<'a>(d: &'a mut MDecl, text: &str) -> &'a mut MDep {
    if let Some(i) = d.deps.iter().position(|(t, _)| t == text) {
      return &mut d.deps[i].1;
    }
    d.deps.push((
      text.to_string(),
      MDep {
        code: MRes::None,
        typ: MRes::None,
        attr: None,
        is_dynamic: false,
      },
    ));
    &mut d.deps.last_mut().unwrap().1
  }
  if types {
    if !m.media.is_typed()
      && let Some(it) = m.items.iter().find(|i| i.form == Form::SelfTypes)
    {
      d.types_dep = Some((it.text.clone(), model_resolve(r, &it.text, &m.url, true)));
    }
    for it in &m.items {
      match it.form {
        Form::RefPath => {
          let e = entry(&mut d, &it.text);
          if e.typ.is_none() {
            e.typ = model_resolve(r, &it.text, &m.url, true);
          }
        }
        Form::RefTypes => {
          if !m.media.is_typed() {
            if d.types_dep.is_none() {
              d.types_dep =
                Some((it.text.clone(), model_resolve(r, &it.text, &m.url, true)));
            }
          } else {
            let e = entry(&mut d, &it.text);
            if e.typ.is_none() {
              e.typ = model_resolve(r, &it.text, &m.url, true);
            }
          }
        }
        _ => {}
      }
    }
    if m.media.is_plain_js() {
      for it in m.items.iter().filter(|i| i.form == Form::JsDoc) {
        let e = entry(&mut d, &it.text);
        if e.typ.is_none() {
          e.typ = model_resolve(r, &it.text, &m.url, true);
        }
      }
    }
    if d.types_dep.is_none()
      && let Some(h) = &m.x_ts_types
    {
      d.types_dep = Some((h.clone(), model_resolve(r, h, &m.url, true)));
    }
  }
  for it in m.items.iter().filter(|i| i.form.is_es_item()) {
    if it.form.is_type_only() && !types {
      continue;
    }
    let e = entry(&mut d, &it.text);
    if e.attr.is_none() {
      e.attr = it.form.attr().map(|s| s.to_string());
    }
    if let Some(dt) = &it.deno_types
      && types
      && e.typ.is_none()
    {
      e.typ = model_resolve(r, dt, &m.url, true);
    }
    if it.form.is_type_only() {
      if e.typ.is_none() {
        e.typ = model_resolve(r, &it.text, &m.url, true);
      }
    } else if !m.media.is_declaration() {
      if e.code.is_none() {
        e.code = model_resolve(r, &it.text, &m.url, false);
        e.is_dynamic = it.form.is_dynamic();
      } else {
        e.is_dynamic = e.is_dynamic && it.form.is_dynamic();
      }
    }
    if types && e.typ.is_none() {
      let t = model_resolve(r, &it.text, &m.url, true);
      let side_effect_err = it.form == Form::SideEffect && t == MRes::Err;
      if !side_effect_err && t.ok() != e.code.ok() {
        e.typ = t;
      } else if !side_effect_err && t == MRes::Err && e.code == MRes::Err {
        // both failed: specifiers are both None, so no separate type entry
      }
    }
  }
  d
}

// ------------------------------------------------------------ model: closure

#[derive(Clone, Debug, PartialEq, Eq)]
pub enum MSlot {
  Js { deps: Vec<(String, MDep)>, types_dep: Option<(String, MRes)> },
  Wasm { deps: Vec<(String, MDep)> },
  Json,
  External,
  Err(&'static str),
}

impl MSlot {
  pub fn class(&self) -> String {
    match self {
      MSlot::Js { .. } => "js".into(),
      MSlot::Wasm { .. } => "wasm".into(),
      MSlot::Json => "json".into(),
      MSlot::External => "external".into(),
      MSlot::Err(k) => format!("err:{}", k),
    }
  }
}

#[derive(Clone, Debug, Default)]
pub struct MGraph {
  pub slots: BTreeMap<String, MSlot>,
  pub redirects: BTreeMap<String, String>,
  /// the model declines (construct outside the core tier was reached)
  pub declined: Option<String>,
  /// module -> (text, resolution) of its `sourceMappingURL`
  pub source_maps: BTreeMap<String, (String, MRes)>,
}

#[derive(Clone, Debug)]
struct Req {
  spec: String,
  is_root: bool,
  in_dynamic: bool,
  attr: Option<String>,
  hops: usize,
}

#[derive(Clone, Debug)]
pub struct MOptions {
  pub kind: GraphKind,
  pub skip_dynamic_deps: bool,
  pub is_dynamic: bool,
  pub max_redirects: usize,
}

/// Closure model (Appendix A1, A4–A6, A8) for the core tier: no assets, no
/// jsr/npm/node, no source phase. Requests are processed FIFO like the
/// builder's ordered queue with an immediately-ready loader.
pub fn model_build(w: &GWorld, o: &MOptions) -> MGraph {
  let r = w.resolver.as_ref();
  let mut g = MGraph::default();
  let mut queue: VecDeque<Req> = VecDeque::new();
  let mut dynamic: Vec<(String, Req)> = vec![];
  let mut in_flight: BTreeSet<String> = BTreeSet::new();
  let mut resolved_roots: BTreeSet<String> = BTreeSet::new();
  let mut in_dynamic_phase = o.is_dynamic;

  // request(): one seeded redirect hop, then dedupe on slot / in flight
  fn request(
    g: &mut MGraph,
    queue: &mut VecDeque<Req>,
    in_flight: &mut BTreeSet<String>,
    mut req: Req,
  ) {
    if let Some(t) = g.redirects.get(&req.spec) {
      req.spec = t.clone();
    }
    if g.slots.contains_key(&req.spec) || in_flight.contains(&req.spec) {
      return;
    }
    match url::Url::parse(&req.spec).map(|u| u.scheme().to_string()).as_deref() {
      Ok("jsr") | Ok("npm") | Ok("node") | Ok("data") => {
        g.declined = Some(format!("scheme of {}", req.spec));
        return;
      }
      _ => {}
    }
    in_flight.insert(req.spec.clone());
    queue.push_back(req);
  }

  for root in &w.roots {
    request(
      &mut g,
      &mut queue,
      &mut in_flight,
      Req {
        spec: url(root).to_string(),
        is_root: true,
        in_dynamic: o.is_dynamic,
        attr: None,
        hops: 0,
      },
    );
  }
  for (referrer, texts) in &w.imports {
    for t in texts {
      if let MRes::Ok(u) = model_resolve(r, t, referrer, true) {
        let is_root = resolved_roots.contains(&u);
        request(
          &mut g,
          &mut queue,
          &mut in_flight,
          Req {
            spec: u,
            is_root,
            in_dynamic: o.is_dynamic,
            attr: None,
            hops: 0,
          },
        );
      }
    }
  }

  loop {
    while let Some(req) = queue.pop_front() {
      in_flight.remove(&req.spec);
      let m = w.get(&req.spec);
      let serve = m.map(|m| m.serve.clone()).unwrap_or(Serve::Missing);
      match serve {
        Serve::Missing => {
          g.slots.insert(req.spec.clone(), MSlot::Err("missing"));
        }
        Serve::Err => {
          g.slots.insert(req.spec.clone(), MSlot::Err("load"));
        }
        Serve::External => {
          if req.is_root {
            resolved_roots.insert(req.spec.clone());
          }
          g.slots.insert(req.spec.clone(), MSlot::External);
        }
        Serve::Redirect(t) => {
          let t = url(&t).to_string();
          if req.hops >= o.max_redirects {
            g.slots.insert(req.spec.clone(), MSlot::Err("too-many-redirects"));
          } else {
            if t != req.spec {
              g.redirects.entry(req.spec.clone()).or_insert(t.clone());
            }
            request(
              &mut g,
              &mut queue,
              &mut in_flight,
              Req {
                spec: t,
                hops: req.hops + 1,
                ..req.clone()
              },
            );
          }
        }
        Serve::Module | Serve::ModuleOtherFinal(_) => {
          let m = m.unwrap();
          let final_spec = match &m.serve {
            Serve::ModuleOtherFinal(f) => url(f).to_string(),
            _ => req.spec.clone(),
          };
          if final_spec != req.spec {
            g.redirects
              .entry(req.spec.clone())
              .or_insert(final_spec.clone());
          }
          if req.is_root {
            resolved_roots.insert(final_spec.clone());
          }
          // A5: media type & admission. With ModuleOtherFinal the media type
          // is that of the final specifier's extension unless conveyed by header.
          let mut media = m.media;
          if media == Media::Unknown && req.is_root {
            media = Media::Js;
          }
          let slot = if let Some(a) = req.attr.as_deref()
            && !matches!(a, "json" | "text" | "bytes")
          {
            MSlot::Err("unsupported-attr")
          } else if media == Media::Json
            && (req.is_root || req.in_dynamic || req.attr.as_deref() == Some("json"))
          {
            MSlot::Json
          } else if req.attr.as_deref() == Some("json") {
            MSlot::Err("invalid-type-assertion")
          } else if media == Media::Json || media == Media::Unknown {
            MSlot::Err("unsupported-media-type")
          } else if m.broken {
            MSlot::Err("parse")
          } else {
            // A6/A7
            let mut decl = model_declarations(
              &GModule {
                url: final_spec.clone(),
                media,
                ..m.clone()
              },
              o.kind,
              r,
            );
            let follow_deps = o.kind.include_code() || decl.types_dep.is_none();
            if !follow_deps {
              decl.deps.clear();
            }
            let mut new_reqs: Vec<(Req, bool)> = vec![];
            for (_text, dep) in decl.deps.iter_mut() {
              if dep.is_dynamic && o.skip_dynamic_deps {
                continue;
              }
              if o.kind.include_code() || dep.typ.is_none() {
                if let MRes::Ok(u) = &dep.code {
                  let rq = Req {
                    spec: u.clone(),
                    is_root: resolved_roots.contains(u),
                    in_dynamic: in_dynamic_phase,
                    attr: dep.attr.clone(),
                    hops: 0,
                  };
                  new_reqs.push((rq, dep.is_dynamic && !in_dynamic_phase));
                }
              } else {
                dep.code = MRes::None;
              }
              if o.kind.include_types() {
                if let MRes::Ok(u) = &dep.typ {
                  let rq = Req {
                    spec: u.clone(),
                    is_root: resolved_roots.contains(u),
                    in_dynamic: in_dynamic_phase,
                    attr: dep.attr.clone(),
                    hops: 0,
                  };
                  new_reqs.push((rq, dep.is_dynamic && !in_dynamic_phase));
                }
              } else {
                dep.typ = MRes::None;
              }
            }
            for (rq, deferred) in new_reqs {
              if deferred {
                dynamic.push((rq.spec.clone(), rq));
              } else {
                request(&mut g, &mut queue, &mut in_flight, rq);
              }
            }
            if o.kind.include_types() {
              if let Some((_, MRes::Ok(u))) = &decl.types_dep {
                request(
                  &mut g,
                  &mut queue,
                  &mut in_flight,
                  Req {
                    spec: u.clone(),
                    is_root: resolved_roots.contains(u),
                    in_dynamic: false,
                    attr: None,
                    hops: 0,
                  },
                );
              }
            } else {
              decl.types_dep = None;
            }
            // the source map named by a `sourceMappingURL` comment is loaded
            // as an external asset whenever the module's dependencies are
            if media != Media::Wasm
              && let Some(text) = &m.source_map
            {
              let res = model_resolve(r, text, &final_spec, false);
              if follow_deps
                && let MRes::Ok(u) = &res
                && !g.slots.contains_key(u)
                && !in_flight.contains(u)
              {
                let slot = match w.get(u).map(|x| x.serve.clone()) {
                  Some(Serve::Module) | Some(Serve::External) | Some(Serve::ModuleOtherFinal(_)) => MSlot::External,
                  Some(Serve::Err) => MSlot::Err("load"),
                  Some(Serve::Redirect(_)) => {
                    g.declined = Some(format!("redirecting source map {}", u));
                    MSlot::External
                  }
                  Some(Serve::Missing) | None => MSlot::Err("missing"),
                };
                g.slots.insert(u.clone(), slot);
              }
              g.source_maps.insert(final_spec.clone(), (text.clone(), res));
            }
            if media == Media::Wasm {
              MSlot::Wasm { deps: decl.deps }
            } else {
              MSlot::Js {
                deps: decl.deps,
                types_dep: decl.types_dep,
              }
            }
          };
          g.slots.insert(final_spec, slot);
        }
      }
    }
    if !in_dynamic_phase && !dynamic.is_empty() {
      in_dynamic_phase = true;
      for (_, mut rq) in std::mem::take(&mut dynamic) {
        rq.in_dynamic = true;
        rq.is_root = resolved_roots.contains(&rq.spec);
        request(&mut g, &mut queue, &mut in_flight, rq);
      }
      continue;
    }
    break;
  }
  g
}

// ------------------------------------------------------------ random worlds

pub struct GenCfg {
  pub max_modules: usize,
  pub max_items: usize,
  pub allow_failures: bool,
  pub allow_redirects: bool,
  pub allow_resolver: bool,
  pub allow_header_media: bool,
  pub remote_bias: u32, // out of 10: chance that the world is remote
}

impl Default for GenCfg {
  fn default() -> Self {
    GenCfg {
      max_modules: 8,
      max_items: 5,
      allow_failures: true,
      allow_redirects: true,
      allow_resolver: true,
      allow_header_media: true,
      remote_bias: 5,
    }
  }
}

/// Random world in the core tier. Guarantees the C01 proviso (one `type`
/// attribute per target) and avoids the order-sensitive context conflicts
/// listed in DESIGN (a JSON target is reached either always with the json
/// attribute or never).
pub fn gen_world(rng: &mut Rng, cfg: &GenCfg) -> GWorld {
  for _ in 0..50 {
    let w = gen_world_once(rng, cfg);
    if !has_context_conflict(&w) {
      return w;
    }
  }
  panic!("generator could not produce a conflict-free world");
}

/// The class of a JSON / unknown-media entry depends on the context of the
/// *first* request that reaches it (root or dynamic branch: lenient; plain
/// static import: error). A world in which such an entry is reachable both in
/// a lenient and in a strict context has an order-dependent answer, which the
/// properties do not cover (same idea as the `type` attribute proviso), so
/// the generator rejects it.
pub fn has_context_conflict(w: &GWorld) -> bool {
  let r = w.resolver.as_ref();
  let final_of = |start: &str| -> Option<&GModule> {
    let mut cur = url(start).to_string();
    for _ in 0..16 {
      let m = w.get(&cur)?;
      match &m.serve {
        Serve::Redirect(t) => cur = url(t).to_string(),
        _ => return Some(m),
      }
    }
    None
  };
  let sensitive =
    |m: &GModule| matches!(m.media, Media::Json | Media::Unknown) && matches!(m.serve, Serve::Module | Serve::ModuleOtherFinal(_));
  let mut lenient: BTreeSet<String> = BTreeSet::new();
  let mut strict: BTreeSet<String> = BTreeSet::new();
  // the `type` attribute proviso itself: one JSON target imported both with
  // and without the attribute (e.g. through a redirect head or a pragma)
  let mut with_attr: BTreeSet<String> = BTreeSet::new();
  let mut without_attr: BTreeSet<String> = BTreeSet::new();
  for root in &w.roots {
    if let Some(m) = final_of(root)
      && sensitive(m)
    {
      lenient.insert(m.url.clone());
    }
  }
  for (referrer, texts) in &w.imports {
    for t in texts {
      if let MRes::Ok(u) = model_resolve(r, t, referrer, true)
        && let Some(m) = final_of(&u)
        && sensitive(m)
      {
        strict.insert(m.url.clone());
        if m.media == Media::Json {
          // configuration imports carry no `type` attribute
          without_attr.insert(m.url.clone());
        }
      }
    }
  }
  for m in &w.modules {
    let mut texts: Vec<(String, bool, bool)> = vec![]; // (text, dynamic, json attr)
    for it in &m.items {
      // in a declaration file every import is a (static) type dependency
      texts.push((
        it.text.clone(),
        it.form.is_dynamic() && !m.media.is_declaration(),
        it.form.attr() == Some("json"),
      ));
      if let Some(dt) = &it.deno_types {
        texts.push((dt.clone(), false, false));
      }
    }
    if let Some(h) = &m.x_ts_types {
      texts.push((h.clone(), false, false));
    }
    for (t, dynamic, json_attr) in texts {
      for types in [false, true] {
        if let MRes::Ok(u) = model_resolve(r, &t, &m.url, types)
          && let Some(tm) = final_of(&u)
          && sensitive(tm)
        {
          if tm.media == Media::Json && json_attr {
            with_attr.insert(tm.url.clone());
            continue; // always a JSON module
          }
          if tm.media == Media::Json {
            without_attr.insert(tm.url.clone());
          }
          // the dynamic-branch leniency exists for JSON only
          if dynamic && tm.media == Media::Json {
            lenient.insert(tm.url.clone());
          } else {
            strict.insert(tm.url.clone());
          }
        }
      }
    }
  }
  // anything reached from a dynamically imported module is also lenient;
  // conservatively treat every strict reference as possibly lenient when the
  // world has dynamic imports at all and the entry is JSON
  let any_dynamic = w.modules.iter().any(|m| m.items.iter().any(|i| i.form.is_dynamic()));
  if any_dynamic && strict.iter().any(|u| w.get(u).is_some_and(|m| m.media == Media::Json)) {
    return true;
  }
  if with_attr.intersection(&without_attr).next().is_some() {
    return true;
  }
  lenient.intersection(&strict).next().is_some()
}

fn gen_world_once(rng: &mut Rng, cfg: &GenCfg) -> GWorld {
  let remote = rng.chance(cfg.remote_bias, 10);
  let base = if remote { "https://h.test/" } else { "file:///" };
  let n = rng.range(2, cfg.max_modules.max(2));
  let mut modules: Vec<GModule> = vec![];
  let mut source_map_files: Vec<String> = vec![];
  for i in 0..n {
    let media = match rng.below(17) {
      16 => Media::Wasm,
      0..=4 => Media::Ts,
      5..=7 => Media::Js,
      8 => Media::Mjs,
      9 => Media::Jsx,
      10 => Media::Tsx,
      11 => Media::Dts,
      12 => Media::Mts,
      13 | 14 => Media::Json,
      _ => Media::Unknown,
    };
    let via_header = remote
      && cfg.allow_header_media
      && media.content_type().is_some()
      && rng.chance(1, 5);
    let url = if via_header {
      format!("{}m{}", base, i)
    } else {
      format!("{}m{}.{}", base, i, media.ext())
    };
    modules.push(GModule {
      url,
      media,
      via_header,
      items: vec![],
      x_ts_types: None,
      source_map: None,
      broken: false,
      serve: Serve::Module,
    });
  }
  // failure / special entries
  let mut extra: Vec<GModule> = vec![];
  if cfg.allow_failures {
    for (k, serve) in [Serve::Missing, Serve::Err, Serve::External]
      .into_iter()
      .enumerate()
    {
      if rng.chance(1, 3) {
        extra.push(GModule {
          url: format!("{}x{}.ts", base, k),
          media: Media::Ts,
          via_header: false,
          items: vec![],
          x_ts_types: None,
          source_map: None,
          broken: false,
          serve,
        });
      }
    }
    if rng.chance(1, 4) {
      let i = rng.below(modules.len());
      if modules[i].media.is_js_like() {
        modules[i].broken = true;
      }
    }
  }
  if cfg.allow_redirects && remote {
    // redirect chains onto existing modules
    let chains = rng.below(3);
    for c in 0..chains {
      let len = rng.range(1, 3);
      let target = rng.below(modules.len());
      for h in 0..len {
        let to = if h + 1 == len {
          modules[target].url.clone()
        } else {
          format!("{}r{}_{}.ts", base, c, h + 1)
        };
        extra.push(GModule {
          url: format!("{}r{}_{}.ts", base, c, h),
          media: Media::Ts,
          via_header: false,
          items: vec![],
          x_ts_types: None,
          source_map: None,
          broken: false,
          serve: Serve::Redirect(to),
        });
      }
    }
    if rng.chance(1, 5) {
      // implicit redirect: module answered under another final specifier
      let i = modules.len();
      extra.push(GModule {
        url: format!("{}alias{}.ts", base, i),
        media: Media::Ts,
        via_header: false,
        items: vec![],
        x_ts_types: None,
        source_map: None,
        broken: false,
        serve: Serve::ModuleOtherFinal(format!("{}final{}.ts", base, i)),
      });
    }
  }
  let all_targets: Vec<(String, Media, bool)> = modules
    .iter()
    .chain(extra.iter())
    .map(|m| {
      (
        m.url.clone(),
        m.media,
        matches!(m.serve, Serve::Module | Serve::ModuleOtherFinal(_)),
      )
    })
    .collect();
  // how a JSON target is reached in this world: always with attribute
  let text_for = |rng: &mut Rng, from: &str, to: &str| -> String {
    // relative when same origin & simple, else absolute
    let f = url(from);
    let t = url(to);
    if f.scheme() == t.scheme() && f.host_str() == t.host_str() && rng.chance(2, 3) {
      let name = t.path().trim_start_matches('/').to_string();
      if rng.coin() {
        format!("./{}", name)
      } else {
        format!("/{}", name)
      }
    } else {
      to.to_string()
    }
  };
  let n_mod = modules.len();
  for i in 0..n_mod {
    if !modules[i].media.has_items() {
      continue;
    }
    let media = modules[i].media;
    let from = modules[i].url.clone();
    let k = rng.below(cfg.max_items + 1);
    let mut items: Vec<Item> = vec![];
    for _ in 0..k {
      let (turl, tmedia, _is_mod) = rng.pick(&all_targets).clone();
      if turl == from && rng.chance(3, 4) {
        continue;
      }
      let text = if rng.chance(1, 25) {
        "bare-specifier".to_string()
      } else {
        text_for(rng, &from, &turl)
      };
      let mut forms: Vec<Form> = vec![];
      let tmedia = if text == "bare-specifier" { Media::Ts } else { tmedia };
      if tmedia == Media::Json {
        forms.extend([Form::ImportJson, Form::ImportJson, Form::DynImportJson]);
      } else {
        forms.extend([
          Form::Import,
          Form::Import,
          Form::SideEffect,
          Form::ExportFrom,
          Form::ExportStar,
          Form::DynImport,
          Form::DynImport,
        ]);
        if media.is_typed() {
          forms.extend([Form::ImportType, Form::ImportType, Form::ExportType]);
          forms.push(Form::RefPath);
          forms.push(Form::RefTypes);
        } else {
          forms.push(Form::RefTypes);
          forms.push(Form::SelfTypes);
          forms.push(Form::RefPath);
        }
        if media.is_plain_js() {
          forms.push(Form::JsDoc);
          forms.push(Form::JsDoc);
        }
      }
      if media == Media::Wasm {
        // the import section only has plain static imports of modules
        if tmedia == Media::Json || text == "bare-specifier" {
          continue;
        }
        forms = vec![Form::Import];
      }
      let form = *rng.pick(&forms);
      if media == Media::Wasm {
        if !items.iter().any(|it: &Item| it.text == text) {
          items.push(Item { form, text, deno_types: None });
        }
        continue;
      }
      // keep one attribute per specifier text within a module: if the text was
      // already used with another attribute class, skip
      if items.iter().any(|it: &Item| {
        it.text == text && it.form.is_es_item() && form.is_es_item() && it.form.attr() != form.attr()
      }) {
        continue;
      }
      if form == Form::SelfTypes && items.iter().any(|it| it.form == Form::SelfTypes) {
        continue;
      }
      let deno_types = if form.is_value()
        && !form.is_dynamic()
        && form.attr().is_none()
        && rng.chance(1, 6)
      {
        let (u2, m2, _) = rng.pick(&all_targets).clone();
        if m2 == Media::Json { None } else { Some(text_for(rng, &from, &u2)) }
      } else {
        None
      };
      // collision operator: sometimes repeat the previous text with another form
      items.push(Item {
        form,
        text: text.clone(),
        deno_types,
      });
      if rng.chance(1, 4) && tmedia != Media::Json && form.is_es_item() {
        let f2 = *rng.pick(&[
          Form::Import,
          Form::DynImport,
          Form::SideEffect,
          Form::ExportStar,
          Form::DynImport,
        ]);
        if rng.coin() {
          items.insert(
            0,
            Item {
              form: f2,
              text: text.clone(),
              deno_types: None,
            },
          );
        } else {
          items.push(Item {
            form: f2,
            text,
            deno_types: None,
          });
        }
      }
    }
    // the header is honoured whatever the module's own media type is
    if remote && media != Media::Wasm && (if media.is_typed() { rng.chance(1, 16) } else { rng.chance(1, 8) }) {
      let (u2, m2, _) = rng.pick(&all_targets).clone();
      if m2 != Media::Json {
        modules[i].x_ts_types = Some(text_for(rng, &from, &u2));
      }
    }
    modules[i].items = items;
    // a source map comment pointing at a dedicated file that nothing imports
    if media != Media::Wasm && cfg.allow_failures && rng.chance(1, 7) {
      let map_url = format!("{}maps/m{}.js.map", base, i);
      modules[i].source_map = Some(if rng.coin() { format!("./maps/m{}.js.map", i) } else { map_url.clone() });
      if rng.chance(3, 4) {
        source_map_files.push(map_url);
      }
    }
  }
  for u in source_map_files {
    modules.push(GModule {
      url: u,
      media: Media::Unknown,
      via_header: false,
      items: vec![],
      x_ts_types: None,
      source_map: None,
      broken: false,
      serve: Serve::Module,
    });
  }
  // the `type` attribute proviso across modules: a non-JSON target must never
  // be imported with the json attribute and vice versa -- guaranteed above
  // because the attribute is chosen from the target's media type.
  let mut roots = vec![modules[0].url.clone()];
  let extra_roots = rng.below(3);
  for _ in 0..extra_roots {
    let (u, _, _) = rng.pick(&all_targets).clone();
    if !roots.contains(&u) {
      roots.push(u);
    }
  }
  let mut imports = vec![];
  if rng.chance(1, 6) {
    let (u, m, _) = rng.pick(&all_targets).clone();
    if m != Media::Json {
      imports.push((format!("{}deno.json", base), vec![u]));
    }
  }
  let mut resolver = None;
  if cfg.allow_resolver && rng.chance(1, 4) {
    let mut gr = GResolver::default();
    let all_items: Vec<String> = modules
      .iter()
      .flat_map(|m| m.items.iter().map(|i| i.text.clone()))
      .collect();
    if !all_items.is_empty() {
      let n = rng.range(1, 2);
      for _ in 0..n {
        let t = rng.pick(&all_items).clone();
        let (u, m, _) = rng.pick(&all_targets).clone();
        if m == Media::Json {
          continue;
        }
        // never remap a text that is used with the json attribute
        let used_json = modules.iter().any(|mm| {
          mm.items.iter().any(|i| i.text == t && i.form.attr().is_some())
        });
        if used_json {
          continue;
        }
        match rng.below(3) {
          0 => {
            gr.map.insert(t, u);
          }
          1 => {
            gr.types_map.insert(t, u);
          }
          _ => {
            gr.fail.insert(t, "resolver refused".into());
          }
        }
      }
    }
    if rng.chance(1, 3) {
      gr.map.insert("bare-specifier".into(), modules[0].url.clone());
    }
    resolver = Some(gr);
  }
  modules.extend(extra);
  GWorld {
    modules,
    roots,
    imports,
    resolver,
  }
}
