// E1 (part 1): worlds, the scriptable loader, resolvers, lockers, build helper.
#![allow(dead_code)]

use crate::sched::InlineExecutor;
use crate::sched::Sched;
use crate::sched::Strategy;
use async_trait::async_trait;
use deno_graph::BuildOptions;
use deno_graph::GraphKind;
use deno_graph::ModuleGraph;
use deno_graph::ModuleSpecifier;
use deno_graph::NpmLoadError;
use deno_graph::NpmResolvePkgReqsResult;
use deno_graph::Range;
use deno_graph::ReferrerImports;
use deno_graph::packages::JsrVersionResolver;
use deno_graph::source::CacheResponse;
use deno_graph::source::CacheSetting;
use deno_graph::source::ChecksumIntegrityError;
use deno_graph::source::EnsureCachedFuture;
use deno_graph::source::LoadError;
use deno_graph::source::LoadFuture;
use deno_graph::source::LoadOptions;
use deno_graph::source::LoadResponse;
use deno_graph::source::Loader;
use deno_graph::source::LoaderChecksum;
use deno_graph::source::Locker;
use deno_graph::source::NpmResolver;
use deno_graph::source::ResolutionKind;
use deno_graph::source::ResolveError;
use deno_graph::source::Resolver;
use deno_semver::package::PackageNv;
use deno_semver::package::PackageReq;
use serde_json::Value;
use serde_json::json;
use std::borrow::Cow;
use std::cell::RefCell;
use std::collections::BTreeMap;
use std::collections::HashMap;
use std::sync::Arc;

pub fn url(s: &str) -> ModuleSpecifier {
  ModuleSpecifier::parse(s).unwrap_or_else(|e| panic!("bad url {:?}: {}", s, e))
}

pub fn sha256_hex(bytes: &[u8]) -> String {
  use sha2::Digest;
  let mut h = sha2::Sha256::new();
  h.update(bytes);
  format!("{:x}", h.finalize())
}

// ---------------------------------------------------------------- world

#[derive(Clone, Debug, PartialEq, Eq, Hash)]
pub enum Resp {
  Module {
    headers: Vec<(String, String)>,
    content: Vec<u8>,
    /// final specifier when different from the requested one
    final_spec: Option<String>,
  },
  Redirect(String),
  External(Option<String>),
  Err(String),
}

impl Resp {
  pub fn text(s: &str) -> Resp {
    Resp::Module {
      headers: vec![],
      content: s.as_bytes().to_vec(),
      final_spec: None,
    }
  }
  pub fn with_headers(s: &str, h: &[(&str, &str)]) -> Resp {
    Resp::Module {
      headers: h.iter().map(|(a, b)| (a.to_string(), b.to_string())).collect(),
      content: s.as_bytes().to_vec(),
      final_spec: None,
    }
  }
  pub fn to_json(&self) -> Value {
    match self {
      Resp::Module {
        headers,
        content,
        final_spec,
      } => json!({
        "module": String::from_utf8_lossy(content),
        "headers": headers,
        "final": final_spec,
      }),
      Resp::Redirect(t) => json!({"redirect": t}),
      Resp::External(t) => json!({"external": t}),
      Resp::Err(e) => json!({"err": e}),
    }
  }
}

#[derive(Clone, Debug, Default, PartialEq, Eq, Hash)]
pub struct World {
  /// what the "network" serves (CacheSetting::Use / Reload)
  pub remote: BTreeMap<String, Resp>,
  /// what the cache-only probe serves (CacheSetting::Only)
  pub cache: BTreeMap<String, Resp>,
  /// overrides for cache-busting loads (CacheSetting::Reload); falls back to `remote`
  pub reload: BTreeMap<String, Resp>,
}

impl World {
  pub fn new() -> Self {
    Self::default()
  }
  pub fn add(&mut self, u: &str, r: Resp) -> &mut Self {
    self.remote.insert(url(u).to_string(), r);
    self
  }
  pub fn add_text(&mut self, u: &str, s: &str) -> &mut Self {
    self.add(u, Resp::text(s))
  }
  pub fn add_cache(&mut self, u: &str, r: Resp) -> &mut Self {
    self.cache.insert(url(u).to_string(), r);
    self
  }
  pub fn to_json(&self) -> Value {
    let f = |m: &BTreeMap<String, Resp>| {
      Value::Object(m.iter().map(|(k, v)| (k.clone(), v.to_json())).collect())
    };
    if self.cache.is_empty() {
      f(&self.remote)
    } else {
      json!({"remote": f(&self.remote), "cache": f(&self.cache)})
    }
  }
}

// ---------------------------------------------------------------- loader

#[derive(Clone, Debug, PartialEq, Eq)]
pub struct LoadEvent {
  pub seq: usize,
  pub ensure_cached: bool,
  pub specifier: String,
  pub cache_setting: &'static str,
  pub checksum: Option<String>,
  pub in_dynamic_branch: bool,
  pub was_dynamic_root: bool,
  /// short description of the answer given
  pub answer: String,
}

impl LoadEvent {
  pub fn to_json(&self) -> Value {
    json!({
      "seq": self.seq, "ensure_cached": self.ensure_cached,
      "specifier": self.specifier, "cache": self.cache_setting,
      "checksum": self.checksum, "dyn": self.in_dynamic_branch,
      "answer": self.answer,
    })
  }
}

/// Identity of a loader call that is stable under faults elsewhere.
#[derive(Clone, Debug, PartialEq, Eq, Hash, PartialOrd, Ord)]
pub struct CallKey {
  pub specifier: String,
  pub cache_setting: &'static str,
  pub ensure_cached: bool,
  pub occurrence: u32,
}

#[derive(Clone, Debug, PartialEq, Eq, Hash)]
pub enum Fault {
  Missing,
  Err,
  ChecksumErr,
  Redirect(String),
  External,
  ExternalOther(String),
  /// module answer with replaced bytes / headers / final specifier
  Module {
    content: Vec<u8>,
    headers: Vec<(String, String)>,
    final_spec: Option<String>,
  },
}

impl Fault {
  pub fn name(&self) -> String {
    match self {
      Fault::Missing => "missing".into(),
      Fault::Err => "err".into(),
      Fault::ChecksumErr => "checksum-err".into(),
      Fault::Redirect(_) => "redirect".into(),
      Fault::External => "external".into(),
      Fault::ExternalOther(_) => "external-other".into(),
      Fault::Module { .. } => "module-replaced".into(),
    }
  }
}

#[derive(Debug)]
struct SimpleErr(String);
impl std::fmt::Display for SimpleErr {
  fn fmt(&self, f: &mut std::fmt::Formatter<'_>) -> std::fmt::Result {
    write!(f, "{}", self.0)
  }
}
impl std::error::Error for SimpleErr {}
impl deno_error::JsErrorClass for SimpleErr {
  fn get_class(&self) -> Cow<'static, str> {
    Cow::Borrowed("Error")
  }
  fn get_message(&self) -> Cow<'static, str> {
    Cow::Owned(self.0.clone())
  }
  fn get_additional_properties(&self) -> deno_error::AdditionalProperties {
    Box::new(std::iter::empty())
  }
  fn get_ref(&self) -> &(dyn std::error::Error + Send + Sync + 'static) {
    self
  }
}

pub fn other_err(msg: &str) -> LoadError {
  LoadError::Other(Arc::new(SimpleErr(msg.to_string())))
}

pub struct ScriptedLoader<'w> {
  pub world: &'w World,
  pub log: RefCell<Vec<LoadEvent>>,
  occurrences: RefCell<HashMap<(String, &'static str, bool), u32>>,
  pub faults: HashMap<CallKey, Fault>,
  pub faults_delivered: RefCell<Vec<CallKey>>,
  /// conforming loaders verify presented checksums
  pub verify_checksums: bool,
  /// bytes to serve instead of the world's for these specifiers, on every path
  pub tamper: HashMap<String, Vec<u8>>,
  /// whether CacheSetting::Reload bypasses tampering (a fresh honest copy)
  pub reload_is_honest: bool,
  pub max_redirects: usize,
  pub sched: Option<Sched>,
  /// use the trait's default ensure_cached (through load) or a dedicated one
  pub native_ensure_cached: bool,
  /// serve data: urls
  pub data_urls: bool,
  /// `cache_info_enabled()`; `get_cache_info` knows a resource once a load of it has *completed* with content
  /// (the future was polled to its end, as with a loader that downloads while polled)
  pub cache_info: bool,
  pub downloaded: std::rc::Rc<RefCell<std::collections::HashSet<String>>>,
}

impl<'w> ScriptedLoader<'w> {
  pub fn new(world: &'w World) -> Self {
    ScriptedLoader {
      world,
      log: Default::default(),
      occurrences: Default::default(),
      faults: Default::default(),
      faults_delivered: Default::default(),
      verify_checksums: true,
      tamper: Default::default(),
      reload_is_honest: false,
      max_redirects: 10,
      sched: None,
      native_ensure_cached: true,
      data_urls: true,
      cache_info: false,
      downloaded: Default::default(),
    }
  }

  pub fn take_log(&self) -> Vec<LoadEvent> {
    std::mem::take(&mut *self.log.borrow_mut())
  }

  fn answer(
    &self,
    specifier: &ModuleSpecifier,
    options: &LoadOptions,
    ensure: bool,
  ) -> (Result<Option<LoadResponse>, LoadError>, String) {
    let cache_setting = options.cache_setting.as_js_str();
    let spec = specifier.to_string();
    let occ = {
      let mut o = self.occurrences.borrow_mut();
      let e = o.entry((spec.clone(), cache_setting, ensure)).or_insert(0);
      let v = *e;
      *e += 1;
      v
    };
    let key = CallKey {
      specifier: spec.clone(),
      cache_setting,
      ensure_cached: ensure,
      occurrence: occ,
    };
    let mut resp: Option<Resp> = match options.cache_setting {
      CacheSetting::Only => self.world.cache.get(&spec).cloned(),
      CacheSetting::Reload => self
        .world
        .reload
        .get(&spec)
        .or_else(|| self.world.remote.get(&spec))
        .cloned(),
      CacheSetting::Use => self.world.remote.get(&spec).cloned(),
    };
    let mut faulted = false;
    if let Some(f) = self.faults.get(&key) {
      faulted = true;
      self.faults_delivered.borrow_mut().push(key.clone());
      match f {
        Fault::Missing => resp = None,
        Fault::Err => resp = Some(Resp::Err("injected failure".into())),
        Fault::ChecksumErr => {
          return (
            Err(LoadError::ChecksumIntegrity(ChecksumIntegrityError {
              actual: "injected".into(),
              expected: options
                .maybe_checksum
                .as_ref()
                .map(|c| c.as_str().to_string())
                .unwrap_or_default(),
            })),
            "fault:checksum-err".into(),
          );
        }
        Fault::Redirect(t) => resp = Some(Resp::Redirect(t.clone())),
        Fault::External => resp = Some(Resp::External(None)),
        Fault::ExternalOther(t) => resp = Some(Resp::External(Some(t.clone()))),
        Fault::Module {
          content,
          headers,
          final_spec,
        } => {
          resp = Some(Resp::Module {
            headers: headers.clone(),
            content: content.clone(),
            final_spec: final_spec.clone(),
          })
        }
      }
    }
    if resp.is_none()
      && self.data_urls
      && specifier.scheme() == "data"
      && !faulted
    {
      return match deno_graph::source::load_data_url(specifier) {
        Ok(r) => (Ok(r), "data-url".into()),
        Err(e) => (Err(LoadError::Other(Arc::new(e))), "data-url-err".into()),
      };
    }
    match resp {
      None => (Ok(None), if faulted { "fault:missing" } else { "missing" }.into()),
      Some(Resp::Err(e)) => (Err(other_err(&e)), format!("err:{}", e)),
      Some(Resp::Redirect(t)) => (
        Ok(Some(LoadResponse::Redirect { specifier: url(&t) })),
        format!("redirect:{}", t),
      ),
      Some(Resp::External(t)) => {
        let s = t.map(|t| url(&t)).unwrap_or_else(|| specifier.clone());
        (
          Ok(Some(LoadResponse::External {
            specifier: s.clone(),
          })),
          format!("external:{}", s),
        )
      }
      Some(Resp::Module {
        headers,
        content,
        final_spec,
      }) => {
        let mut bytes = content;
        let honest = self.reload_is_honest
          && matches!(options.cache_setting, CacheSetting::Reload);
        if !honest && let Some(t) = self.tamper.get(&spec) {
          bytes = t.clone();
        }
        if self.verify_checksums
          && let Some(c) = &options.maybe_checksum
          && let Err(e) = c.check_source(&bytes)
        {
          return (Err(LoadError::ChecksumIntegrity(e)), "checksum-mismatch".into());
        }
        let fs = final_spec.map(|s| url(&s)).unwrap_or_else(|| specifier.clone());
        let desc = format!("module:{}:{}", fs, sha256_hex(&bytes));
        (
          Ok(Some(LoadResponse::Module {
            content: Arc::from(bytes),
            mtime: None,
            specifier: fs,
            // the pseudo header "#empty-map" asks for `Some({})`
            maybe_headers: if headers.is_empty() {
              None
            } else {
              Some(headers.into_iter().filter(|(k, _)| k != "#empty-map").collect())
            },
          })),
          desc,
        )
      }
    }
  }

  fn record(
    &self,
    specifier: &ModuleSpecifier,
    options: &LoadOptions,
    ensure: bool,
    answer: String,
  ) {
    let mut log = self.log.borrow_mut();
    let seq = log.len();
    log.push(LoadEvent {
      seq,
      ensure_cached: ensure,
      specifier: specifier.to_string(),
      cache_setting: options.cache_setting.as_js_str(),
      checksum: options.maybe_checksum.as_ref().map(|c| c.as_str().to_string()),
      in_dynamic_branch: options.in_dynamic_branch,
      was_dynamic_root: options.was_dynamic_root,
      answer,
    });
  }
}

impl Loader for ScriptedLoader<'_> {
  fn max_redirects(&self) -> usize {
    self.max_redirects
  }

  fn cache_info_enabled(&self) -> bool {
    self.cache_info
  }

  fn get_cache_info(&self, specifier: &ModuleSpecifier) -> Option<deno_graph::source::CacheInfo> {
    if !self.cache_info {
      return None;
    }
    let s = specifier.as_str();
    if self.downloaded.borrow().contains(s) {
      Some(deno_graph::source::CacheInfo {
        local: Some(std::path::PathBuf::from(format!("/cache/{:016x}", crate::common::hash64(&s)))),
      })
    } else {
      None
    }
  }

  fn load(&self, specifier: &ModuleSpecifier, options: LoadOptions) -> LoadFuture {
    let (result, desc) = self.answer(specifier, &options, false);
    self.record(specifier, &options, false, desc);
    if self.cache_info && self.sched.is_none() {
      // the download "happens" when the future is polled to completion
      let downloaded = self.downloaded.clone();
      return Box::pin(async move {
        if let Ok(Some(LoadResponse::Module { specifier, .. } | LoadResponse::External { specifier })) = &result {
          downloaded.borrow_mut().insert(specifier.to_string());
        }
        result
      });
    }
    match &self.sched {
      Some(s) => Box::pin(s.gate(
        format!("load {} {}", options.cache_setting.as_js_str(), specifier),
        result,
      )),
      None => Box::pin(std::future::ready(result)),
    }
  }

  fn ensure_cached(
    &self,
    specifier: &ModuleSpecifier,
    options: LoadOptions,
  ) -> EnsureCachedFuture {
    let (result, desc) =
      self.answer(specifier, &options, self.native_ensure_cached);
    self.record(specifier, &options, true, desc);
    if self.cache_info && self.sched.is_none() {
      let downloaded = self.downloaded.clone();
      let result = result.map(|v| {
        v.map(|r| match r {
          LoadResponse::Redirect { specifier } => CacheResponse::Redirect { specifier },
          _ => CacheResponse::Cached,
        })
      });
      let spec = specifier.to_string();
      return Box::pin(async move {
        if let Ok(Some(CacheResponse::Cached)) = &result {
          downloaded.borrow_mut().insert(spec);
        }
        result
      });
    }
    let result = result.map(|v| {
      v.map(|r| match r {
        LoadResponse::Redirect { specifier } => CacheResponse::Redirect { specifier },
        _ => CacheResponse::Cached,
      })
    });
    match &self.sched {
      Some(s) => Box::pin(s.gate(
        format!("cache {} {}", options.cache_setting.as_js_str(), specifier),
        result,
      )),
      None => Box::pin(std::future::ready(result)),
    }
  }
}

// ---------------------------------------------------------------- locker

#[derive(Clone, Debug, PartialEq, Eq)]
pub enum LockEvent {
  SetRemote(String, String),
  SetPkg(String, String),
}

#[derive(Default, Clone, Debug)]
pub struct RecLocker {
  pub remote: BTreeMap<String, String>,
  pub pkg: BTreeMap<String, String>,
  pub events: Vec<LockEvent>,
}

impl Locker for RecLocker {
  fn get_remote_checksum(&self, s: &ModuleSpecifier) -> Option<LoaderChecksum> {
    self.remote.get(s.as_str()).map(|c| LoaderChecksum::new(c.clone()))
  }
  fn has_remote_checksum(&self, s: &ModuleSpecifier) -> bool {
    self.remote.contains_key(s.as_str())
  }
  fn set_remote_checksum(&mut self, s: &ModuleSpecifier, c: LoaderChecksum) {
    self
      .events
      .push(LockEvent::SetRemote(s.to_string(), c.as_str().to_string()));
    self.remote.insert(s.to_string(), c.into_string());
  }
  fn get_pkg_manifest_checksum(&self, nv: &PackageNv) -> Option<LoaderChecksum> {
    self.pkg.get(&nv.to_string()).map(|c| LoaderChecksum::new(c.clone()))
  }
  fn set_pkg_manifest_checksum(&mut self, nv: &PackageNv, c: LoaderChecksum) {
    self
      .events
      .push(LockEvent::SetPkg(nv.to_string(), c.as_str().to_string()));
    self.pkg.insert(nv.to_string(), c.into_string());
  }
}

// ---------------------------------------------------------------- resolvers

/// Import-map like resolver used by the generators. `map` remaps specifier
/// texts (for every referrer); `types_map` remaps for ResolutionKind::Types
/// only; `resolve_types` gives untyped modules a types file.
#[derive(Debug, Default, Clone)]
pub struct MapResolver {
  pub map: BTreeMap<String, String>,
  pub types_map: BTreeMap<String, String>,
  pub resolve_types: BTreeMap<String, String>,
  pub jsx_import_source: Option<String>,
  pub jsx_import_source_types: Option<String>,
  pub fail: BTreeMap<String, String>,
}

impl Resolver for MapResolver {
  fn default_jsx_import_source(&self, _r: &ModuleSpecifier) -> Option<String> {
    self.jsx_import_source.clone()
  }
  fn default_jsx_import_source_types(&self, _r: &ModuleSpecifier) -> Option<String> {
    self.jsx_import_source_types.clone()
  }
  fn resolve(
    &self,
    text: &str,
    referrer_range: &Range,
    kind: ResolutionKind,
  ) -> Result<ModuleSpecifier, ResolveError> {
    if let Some(msg) = self.fail.get(text) {
      return Err(ResolveError::Other(deno_error::JsErrorBox::generic(
        msg.clone(),
      )));
    }
    if kind == ResolutionKind::Types
      && let Some(t) = self.types_map.get(text)
    {
      return Ok(url(t));
    }
    if let Some(t) = self.map.get(text) {
      return Ok(url(t));
    }
    Ok(deno_graph::resolve_import(text, &referrer_range.specifier)?)
  }
  fn resolve_types(
    &self,
    specifier: &ModuleSpecifier,
  ) -> Result<Option<(ModuleSpecifier, Option<Range>)>, ResolveError> {
    Ok(self.resolve_types.get(specifier.as_str()).map(|t| (url(t), None)))
  }
}

#[derive(Debug, Default, Clone)]
pub struct ScriptedNpmResolver {
  /// package names whose requirement resolution fails
  pub fail_names: Vec<String>,
  pub dep_graph_fails: bool,
  pub calls: Arc<std::sync::Mutex<Vec<Vec<String>>>>,
}

#[async_trait(?Send)]
impl NpmResolver for ScriptedNpmResolver {
  fn load_and_cache_npm_package_info(&self, _package_name: &str) {}

  async fn resolve_pkg_reqs(&self, reqs: &[PackageReq]) -> NpmResolvePkgReqsResult {
    self
      .calls
      .lock()
      .unwrap()
      .push(reqs.iter().map(|r| r.to_string()).collect());
    let results: Vec<Result<(), NpmLoadError>> = reqs
      .iter()
      .map(|r| {
        if self.fail_names.iter().any(|n| n.as_str() == r.name.as_str()) {
          Err(NpmLoadError::PackageReqResolution(Arc::new(SimpleErr(format!(
            "npm package {} not found",
            r.name
          )))))
        } else {
          Ok(())
        }
      })
      .collect();
    let any_fail = results.iter().any(|r| r.is_err());
    NpmResolvePkgReqsResult {
      results,
      dep_graph_result: if self.dep_graph_fails && !any_fail {
        Err(Arc::new(SimpleErr("npm dep graph failed".into())))
      } else {
        Ok(())
      },
    }
  }
}

// ---------------------------------------------------------------- build cfg

#[derive(Clone, Debug)]
pub struct BuildCfg {
  pub kind: GraphKind,
  pub is_dynamic: bool,
  pub skip_dynamic_deps: bool,
  pub unstable_bytes: bool,
  pub unstable_text: bool,
  pub unstable_css: bool,
  pub passthrough_jsr: bool,
  pub prefer_cached_jsr: bool,
  pub resolver: Option<MapResolver>,
  pub npm: Option<ScriptedNpmResolver>,
  pub version_resolver: Option<JsrVersionResolver>,
}

impl Default for BuildCfg {
  fn default() -> Self {
    BuildCfg {
      kind: GraphKind::All,
      is_dynamic: false,
      skip_dynamic_deps: false,
      unstable_bytes: false,
      unstable_text: false,
      unstable_css: false,
      passthrough_jsr: false,
      prefer_cached_jsr: false,
      resolver: None,
      npm: None,
      version_resolver: None,
    }
  }
}

impl BuildCfg {
  pub fn kind(kind: GraphKind) -> Self {
    BuildCfg {
      kind,
      ..Default::default()
    }
  }
  pub fn to_json(&self) -> Value {
    json!({
      "kind": format!("{:?}", self.kind),
      "is_dynamic": self.is_dynamic,
      "skip_dynamic_deps": self.skip_dynamic_deps,
      "unstable": [self.unstable_bytes, self.unstable_text, self.unstable_css],
      "passthrough_jsr": self.passthrough_jsr,
      "prefer_cached_jsr": self.prefer_cached_jsr,
      "resolver": self.resolver.as_ref().map(|r| format!("{:?}", r)),
      "npm": self.npm.as_ref().map(|r| format!("{:?}", r.fail_names)),
    })
  }
}

pub enum Exec<'a> {
  /// inline executor + trivial block_on (loader futures are ready at once)
  Inline,
  /// deterministic scheduler; loader must have been given the same Sched
  Sched(&'a Sched, Strategy, u64),
  /// the crate's default executor inside a tokio current-thread runtime
  Tokio,
}

pub struct BuildRun {
  pub completed: bool,
  pub sched: Option<crate::sched::SchedOutcome>,
}

fn mk_options<'a>(
  cfg: &'a BuildCfg,
  executor: &'a dyn deno_graph::Executor,
  locker: Option<&'a mut dyn Locker>,
  analyzer: Option<&'a dyn deno_graph::analysis::ModuleAnalyzer>,
) -> BuildOptions<'a> {
  let mut o = BuildOptions {
    is_dynamic: cfg.is_dynamic,
    skip_dynamic_deps: cfg.skip_dynamic_deps,
    unstable_bytes_imports: cfg.unstable_bytes,
    unstable_text_imports: cfg.unstable_text,
    unstable_css_imports: cfg.unstable_css,
    passthrough_jsr_specifiers: cfg.passthrough_jsr,
    prefer_cached_jsr_versions: cfg.prefer_cached_jsr,
    resolver: cfg.resolver.as_ref().map(|r| r as &dyn Resolver),
    npm_resolver: cfg.npm.as_ref().map(|r| r as &dyn NpmResolver),
    executor,
    locker,
    ..Default::default()
  };
  if let Some(vr) = &cfg.version_resolver {
    o.jsr_version_resolver = Cow::Borrowed(vr);
  }
  if let Some(a) = analyzer {
    o.module_analyzer = a;
  }
  o
}

/// Runs `graph.build(..)` (or reload when `reload` is Some) on the real code.
#[allow(clippy::too_many_arguments)]
pub fn run_build<'a>(
  graph: &mut ModuleGraph,
  roots: &[String],
  imports: &[(String, Vec<String>)],
  loader: &'a dyn Loader,
  cfg: &'a BuildCfg,
  locker: Option<&'a mut dyn Locker>,
  exec: Exec<'a>,
  reload: Option<&[String]>,
) -> BuildRun {
  run_build_with_analyzer(graph, roots, imports, loader, cfg, locker, exec, reload, None)
}

/// Same, with an embedder-supplied module analyzer (e.g. a `CapturingModuleAnalyzer` that the caller keeps
/// across builds and reloads, as the CLI and the language server do).
#[allow(clippy::too_many_arguments)]
pub fn run_build_with_analyzer<'a>(
  graph: &mut ModuleGraph,
  roots: &[String],
  imports: &[(String, Vec<String>)],
  loader: &'a dyn Loader,
  cfg: &'a BuildCfg,
  locker: Option<&'a mut dyn Locker>,
  exec: Exec<'a>,
  reload: Option<&[String]>,
  analyzer: Option<&'a dyn deno_graph::analysis::ModuleAnalyzer>,
) -> BuildRun {
  let roots: Vec<ModuleSpecifier> = roots.iter().map(|r| url(r)).collect();
  let imports: Vec<ReferrerImports> = imports
    .iter()
    .map(|(r, i)| ReferrerImports {
      referrer: url(r),
      imports: i.clone(),
    })
    .collect();
  static INLINE: InlineExecutor = InlineExecutor;
  let inline: &'static InlineExecutor = &INLINE;
  let reload_specs: Option<Vec<ModuleSpecifier>> =
    reload.map(|r| r.iter().map(|s| url(s)).collect());
  match exec {
    Exec::Inline => {
      let options = mk_options(cfg, inline, locker, analyzer);
      match reload_specs {
        Some(r) => crate::sched::block_on(graph.reload(r, loader, options)),
        None => crate::sched::block_on(graph.build(roots, imports, loader, options)),
      }
      BuildRun {
        completed: true,
        sched: None,
      }
    }
    Exec::Sched(s, strategy, budget) => {
      let options = mk_options(cfg, s, locker, analyzer);
      let (r, out) = match reload_specs {
        Some(rs) => s.run(graph.reload(rs, loader, options), strategy, budget),
        None => s.run(graph.build(roots, imports, loader, options), strategy, budget),
      };
      BuildRun {
        completed: r.is_some(),
        sched: Some(out),
      }
    }
    Exec::Tokio => {
      let options = mk_options(cfg, Default::default(), locker, analyzer);
      let rt = tokio::runtime::Builder::new_current_thread().build().unwrap();
      match reload_specs {
        Some(r) => rt.block_on(graph.reload(r, loader, options)),
        None => rt.block_on(graph.build(roots, imports, loader, options)),
      }
      BuildRun {
        completed: true,
        sched: None,
      }
    }
  }
}

/// Convenience: fresh graph, inline executor, no locker.
pub fn build_simple(
  world: &World,
  roots: &[&str],
  cfg: &BuildCfg,
) -> (ModuleGraph, Vec<LoadEvent>) {
  let loader = ScriptedLoader::new(world);
  let mut graph = ModuleGraph::new(cfg.kind);
  let roots: Vec<String> = roots.iter().map(|s| s.to_string()).collect();
  run_build(&mut graph, &roots, &[], &loader, cfg, None, Exec::Inline, None);
  let log = loader.take_log();
  (graph, log)
}

pub fn graph_json(graph: &ModuleGraph) -> Value {
  serde_json::to_value(graph).unwrap_or_else(|e| json!({"serialize_error": e.to_string()}))
}
