// C09 / C10 / C11: monitors over the real fast-check output for generated
// packages and for the repository's fast-check spec corpus.
use crate::common::*;
use crate::fc::*;
use crate::fcmon::*;
use crate::pkg::*;
use crate::world::*;
use deno_graph::ModuleGraph;
use serde_json::Value;
use serde_json::json;
use std::collections::BTreeMap;
use std::collections::BTreeSet;

pub struct EmittedModule {
  pub specifier: String,
  pub original: String,
  pub emitted: String,
  pub source_map: String,
  pub media: deno_graph::MediaType,
}

pub fn emitted_modules(g: &ModuleGraph) -> Vec<EmittedModule> {
  g.modules()
    .filter_map(|m| {
      let js = m.js()?;
      let fc = js.fast_check_module()?;
      Some(EmittedModule {
        specifier: js.specifier.to_string(),
        original: js.source.text.to_string(),
        emitted: fc.source.to_string(),
        source_map: fc.source_map.to_string(),
        media: js.media_type,
      })
    })
    .collect()
}

fn strip_ws(s: &str) -> String {
  // whitespace-insensitive; the printer ends the last member of an object
  // type with `;`
  s.chars().filter(|c| !c.is_whitespace()).collect::<String>().replace(";}", "}")
}

/// all export names of an emitted module, `export *` expanded through the
/// emitted counterparts
fn emitted_exports(
  spec: &str,
  tops: &BTreeMap<String, ModTop>,
  visiting: &mut BTreeSet<String>,
) -> Option<BTreeSet<String>> {
  let t = tops.get(spec)?;
  let mut out = t.exports.clone();
  if !visiting.insert(spec.to_string()) {
    return Some(out);
  }
  for s in &t.star_reexports {
    if let Ok(u) = url(spec).join(s)
      && let Some(names) = emitted_exports(u.as_str(), tops, visiting)
    {
      for n in names {
        if n != "default" {
          out.insert(n);
        }
      }
    }
  }
  visiting.remove(spec);
  Some(out)
}

pub struct FcCtx<'a> {
  pub which: &'a str,
  pub ctx: Value,
}

/// Checks that need no generator knowledge (also used for the corpus).
pub fn check_emitted_generic(acc: &mut Acc, g: &ModuleGraph, fx: &FcCtx) {
  let ems = emitted_modules(g);
  let mut tops: BTreeMap<String, ModTop> = BTreeMap::new();
  let mut parsed_em = BTreeMap::new();
  for em in &ems {
    acc.count("emitted_modules");
    let w = |d: Value| json!({"ctx": fx.ctx, "module": em.specifier, "emitted": em.emitted, "detail": d});
    match parse_ts(&url(&em.specifier), &em.emitted, em.media, true) {
      Err(e) => {
        if fx.which == "C09" {
          acc.violation(
            "emitted-module-does-not-parse",
            format!("{}: {}", em.specifier, e.lines().next().unwrap_or("")),
            w(json!({})),
          );
        }
      }
      Ok(p) => {
        tops.insert(em.specifier.clone(), module_top(&p));
        parsed_em.insert(em.specifier.clone(), p);
      }
    }
  }
  for em in &ems {
    let Some(pe) = parsed_em.get(&em.specifier) else { continue };
    let w = |d: Value| json!({"ctx": fx.ctx, "module": em.specifier, "original": em.original, "emitted": em.emitted, "detail": d});
    let top_e = &tops[&em.specifier];
    let Ok(po) = parse_ts(&url(&em.specifier), &em.original, em.media, true) else { continue };
    let top_o = module_top(&po);
    if fx.which == "C09" {
      // ---- closure under reference
      let unresolved_e = unresolved_idents_ctx(pe, em.media.is_declaration());
      let unresolved_o = unresolved_idents(&po);
      let bound_o: BTreeSet<String> =
        top_o.decls.keys().cloned().chain(top_o.import_locals.iter().cloned()).collect();
      let bound_e: BTreeSet<String> =
        top_e.decls.keys().cloned().chain(top_e.import_locals.iter().cloned()).collect();
      for (name, ctxs) in &unresolved_e {
        acc.count("unresolved_identifiers_examined");
        // A module-level name is in scope in the whole module, so a name the
        // original binds at module level and the emitted module does not is
        // dangling. (swc's resolver is not the oracle for "bound": it leaves
        // references that precede an `export default interface` unresolved,
        // in the original as well as in the output.)
        let _ = &unresolved_o;
        if bound_o.contains(name) && !bound_e.contains(name) {
          let kind = if top_o.import_locals.contains(name) {
            "import".to_string()
          } else {
            top_o.decls[name].iter().next().unwrap().to_string()
          };
          let where_ = if ctxs.iter().all(|c| *c == "ambient-class-private-member") {
            "only-in-private-members-of-ambient-classes"
          } else if ctxs.iter().all(|c| c.starts_with("ambient")) {
            "only-in-ambient-declarations"
          } else {
            "ordinary"
          };
          acc.violation(
            format!("dangling-reference/{}/{}", kind, where_),
            format!(
              "{}: `{}` referred to a module-level {} in the original but resolves to nothing in the emitted module",
              em.specifier, name, kind
            ),
            w(json!({"name": name})),
          );
        }
      }
      // ---- cross-module imports / re-exports
      let mut check_target = |acc: &mut Acc, spec_text: &str, names: Vec<String>, how: &str| {
        let Ok(target) = url(&em.specifier).join(spec_text) else { return };
        let is_relative = spec_text.starts_with("./") || spec_text.starts_with("../");
        let target_in_graph = g.get(&target).is_some();
        if is_relative && !target_in_graph {
          acc.violation(
            "relative-specifier-does-not-resolve",
            format!("{} {} {:?} -> {} is not a module of the graph", em.specifier, how, spec_text, target),
            w(json!({})),
          );
          return;
        }
        if !is_relative {
          return;
        }
        acc.count("cross_module_references_checked");
        let resolved = g.resolve(&target).to_string();
        let mut visiting = BTreeSet::new();
        match emitted_exports(&resolved, &tops, &mut visiting) {
          None => {
            // the target has no emitted counterpart
            let is_js = g.get(&target).is_some_and(|m| m.js().is_some_and(|j| {
              matches!(j.media_type, deno_graph::MediaType::TypeScript | deno_graph::MediaType::Mts | deno_graph::MediaType::Tsx)
                && j.maybe_types_dependency.is_none()
            }));
            if is_js && !names.is_empty() {
              acc.violation(
                format!("imported-module-has-no-emitted-counterpart/{}", how),
                format!("{} {} {:?} but {} has no fast-check module", em.specifier, how, spec_text, resolved),
                w(json!({})),
              );
            }
          }
          Some(exports) => {
            for n in names {
              if n == "*" {
                continue;
              }
              if !exports.contains(&n) {
                acc.violation(
                  format!("imported-name-not-exported-by-emitted-module/{}/{}", how, if n == "default" { "default" } else { "named" }),
                  format!(
                    "{} {} `{}` from {:?}, but the emitted {} exports {:?}",
                    em.specifier, how, n, spec_text, resolved, exports
                  ),
                  w(json!({"target_emitted": ems.iter().find(|e| e.specifier == resolved).map(|e| e.emitted.clone())})),
                );
              }
            }
          }
        }
      };
      // specifiers the transform rewrote (not written like that in the
      // source) must still be relative (or absolute) and resolve in the graph
      {
        let orig_specs: BTreeSet<&String> = top_o
          .imports
          .iter()
          .map(|(s, _)| s)
          .chain(top_o.named_reexports.iter().map(|(s, _, _)| s))
          .chain(top_o.star_reexports.iter())
          .collect();
        let emitted_specs: Vec<&String> = top_e
          .imports
          .iter()
          .map(|(s, _)| s)
          .chain(top_e.named_reexports.iter().map(|(s, _, _)| s))
          .chain(top_e.star_reexports.iter())
          .collect();
        for sp in emitted_specs {
          acc.count("emitted_specifiers_examined");
          if orig_specs.contains(sp) {
            continue;
          }
          acc.count("rewritten_specifiers_examined");
          let relative = sp.starts_with("./") || sp.starts_with("../");
          let absolute = sp.contains("://") || sp.starts_with("jsr:") || sp.starts_with("npm:") || sp.starts_with("node:");
          let resolves = url(&em.specifier).join(sp).ok().is_some_and(|t| g.get(&t).is_some()) && (relative || absolute);
          if !resolves {
            acc.violation(
              if relative || absolute { "rewritten-specifier-does-not-resolve" } else { "rewritten-specifier-is-bare" },
              format!("{}: the output has {:?}, which the source does not write and which is not a module of the graph", em.specifier, sp),
              w(json!({"original_specifiers": orig_specs})),
            );
          }
        }
      }
      for (s, names) in &top_e.imports {
        check_target(acc, s, names.clone(), "imports");
      }
      for (s, orig, _) in &top_e.named_reexports {
        check_target(acc, s, vec![orig.clone()], "re-exports");
      }
      for s in &top_e.star_reexports {
        check_target(acc, s, vec!["*star*".to_string()].into_iter().filter(|_| false).collect(), "star re-exports");
        // the target must have an emitted counterpart
        if let Ok(target) = url(&em.specifier).join(s)
          && (s.starts_with("./") || s.starts_with("../"))
          && g.get(&target).is_some_and(|m| m.js().is_some_and(|j| {
            matches!(j.media_type, deno_graph::MediaType::TypeScript | deno_graph::MediaType::Mts | deno_graph::MediaType::Tsx)
              && j.maybe_types_dependency.is_none()
          }))
          && !tops.contains_key(g.resolve(&target).as_str())
        {
          acc.violation(
            "imported-module-has-no-emitted-counterpart/star re-exports",
            format!("{} export * from {:?}: no fast-check module for {}", em.specifier, s, target),
            w(json!({})),
          );
        }
      }
      // ---- source map
      match serde_json::from_str::<Value>(&em.source_map) {
        Err(e) => acc.violation("source-map/not-json", e.to_string(), w(json!({}))),
        Ok(sm) => {
          let sources: Vec<String> = sm["sources"]
            .as_array()
            .map(|a| a.iter().filter_map(|s| s.as_str().map(|s| s.to_string())).collect())
            .unwrap_or_default();
          if !em.emitted.trim().is_empty() && sources != vec![em.specifier.clone()] {
            acc.violation(
              "source-map/sources",
              format!("sources = {:?}, module is {}", sources, em.specifier),
              w(json!({})),
            );
          }
          match decode_mappings(sm["mappings"].as_str().unwrap_or("")) {
            Err(e) => acc.violation("source-map/mappings-undecodable", e, w(json!({}))),
            Ok(segs) => {
              for (gl, gc, _src, ol, oc) in segs {
                acc.count("source_map_segments");
                let gb = utf16_pos_to_byte(&em.emitted, gl, gc);
                let ob = utf16_pos_to_byte(&em.original, ol, oc);
                match (gb, ob) {
                  (Some(gb), Some(ob)) => {
                    if let Some(id) = ident_at(&em.emitted, gb) {
                      acc.count("source_map_identifier_segments");
                      let orig_id = ident_at(&em.original, ob);
                      const MODS: &[&str] = &[
                        "export", "declare", "public", "private", "protected", "static", "readonly", "abstract",
                        "override", "async", "default", "const", "function", "class", "get", "set", "accessor", "new",
                      ];
                      let at_decorator = em.original[ob..].starts_with('@');
                      let ok = orig_id == Some(id)
                        || at_decorator
                        || orig_id.is_some_and(|o| MODS.contains(&o))
                        || MODS.contains(&id)
                        || id == "param0"
                        || id.starts_with("param");
                      if !ok {
                        acc.violation(
                          "source-map/identifier-maps-to-other-text",
                          format!(
                            "{}: emitted `{}` at {}:{} maps to original {}:{} = {:?}",
                            em.specifier,
                            id,
                            gl,
                            gc,
                            ol,
                            oc,
                            orig_id.unwrap_or(&em.original[ob..(ob + 12).min(em.original.len())].lines().next().unwrap_or(""))
                          ),
                          w(json!({})),
                        );
                      }
                    }
                  }
                  (None, _) => acc.violation(
                    "source-map/generated-position-outside-emitted-text",
                    format!("{} {}:{}", em.specifier, gl, gc),
                    w(json!({})),
                  ),
                  (_, None) => acc.violation(
                    "source-map/original-position-outside-original-text",
                    format!("{} {}:{}", em.specifier, ol, oc),
                    w(json!({})),
                  ),
                }
              }
            }
          }
        }
      }
    }
    if fx.which == "C10" {
      let mut er = Erasure::default();
      er.check_program(pe, em.media.is_declaration());
      for s in &er.shapes {
        acc.count(&format!("shape:{}", s));
      }
      acc.count_n("enum_member_initialisers_kept", er.enum_member_initialisers as u64);
      for (cat, detail) in er.leaks {
        acc.violation(
          format!("erasure/{}", cat),
          format!("{}: {}", em.specifier, detail),
          w(json!({})),
        );
      }
    }
    if fx.which == "C11" {
      // exports: subset for every module (equality for entrypoints is checked
      // by the caller, who knows the entrypoints)
      let mut v1 = BTreeSet::new();
      let e_names = emitted_exports(&em.specifier, &tops, &mut v1).unwrap_or_default();
      let o_names = original_exports(g, &em.specifier);
      // (names flow on through `export *`, so all modules are scanned)
      let expando_defaults: BTreeSet<String> = ems.iter().flat_map(|e| default_fn_expando_names(&e.original, &e.emitted)).collect();
      for n in &e_names {
        if !o_names.contains(n) {
          acc.violation(
            if expando_defaults.contains(n) {
              "exports/default-exported-function-with-expando-properties-becomes-a-named-export"
            } else {
              "exports/emitted-exports-name-the-original-lacks"
            },
            format!("{}: `{}`", em.specifier, n),
            w(json!({"emitted_exports": e_names, "original_exports": o_names})),
          );
        }
      }
      // signature slots written in the source are carried over unchanged
      if let (Some(se), Some(so)) = (
        signature_slots(&url(&em.specifier), &em.emitted, em.media),
        signature_slots(&url(&em.specifier), &em.original, em.media),
      ) {
        for (key, ev) in &se.slots {
          if key.contains("[computed]") || so.overload_impls.iter().any(|p| key.starts_with(p.as_str())) {
            continue;
          }
          let Some(ov) = so.slots.get(key) else {
            acc.count("signature_slots_inferred_or_synthesised");
            continue;
          };
          acc.count("signature_slots_compared");
          // documented normalisation of a defaulted parameter: optional
          // (`x?: T`) when only optional / defaulted / rest parameters
          // follow, `x: T | undefined` otherwise
          let ok = if so.defaulted.contains(key) {
            if se.defaulted.contains(key) {
              // destructuring patterns keep a placeholder default
              ev.same(ov)
            } else if so.optional_tail.contains(key) {
              ev.same(ov) && se.optional.contains(key)
            } else {
              ev.is_nullable_of(ov) && !se.optional.contains(key)
            }
          } else {
            ev.same(ov) && (!so.params.contains(key) || so.optional.contains(key) == se.optional.contains(key))
          };
          if !ok {
            let kind = key.rsplit('/').next().unwrap_or("").split(' ').next().unwrap_or("").split('#').next().unwrap_or("").to_string();
            acc.violation(
              format!("signature-slot-changed/{}", kind),
              format!("{}: {} differs between the source and the output", em.specifier, key),
              w(json!({"slot": key, "emitted": format!("{:?}", ev).chars().take(600).collect::<String>(), "original": format!("{:?}", ov).chars().take(600).collect::<String>()})),
            );
          }
        }
      }
      // kinds are kept
      for (name, kinds) in &top_e.decls {
        if let Some(ok) = top_o.decls.get(name) {
          for k in kinds {
            let expando = *k == "namespace" && (ok.contains("function") || ok.contains("const"));
            if !ok.contains(k) && !expando {
              acc.violation(
                format!("declaration-kind-changed/{}", k),
                format!("{}: `{}` is {:?} in the original and {:?} in the output", em.specifier, name, ok, kinds),
                w(json!({})),
              );
            }
          }
        }
      }
    }
  }
}

/// export names of the original module, `export *` expanded through the graph
pub fn original_exports(g: &ModuleGraph, spec: &str) -> BTreeSet<String> {
  fn inner(g: &ModuleGraph, spec: &str, visiting: &mut BTreeSet<String>) -> BTreeSet<String> {
    let mut out = BTreeSet::new();
    if !visiting.insert(spec.to_string()) {
      return out;
    }
    let u = url(spec);
    if let Some(m) = g.get(&u)
      && let Some(js) = m.js()
      && let Ok(p) = parse_ts(&js.specifier, &js.source.text, js.media_type, false)
    {
      let t = module_top(&p);
      out.extend(t.exports.iter().cloned());
      for s in &t.star_reexports {
        // resolve through the graph's recorded dependency
        let target = g
          .resolve_dependency(s, &js.specifier, true)
          .map(|t| t.to_string())
          .or_else(|| u.join(s).ok().map(|t| g.resolve(&t).to_string()));
        if let Some(t) = target {
          for n in inner(g, &t, visiting) {
            if n != "default" {
              out.insert(n);
            }
          }
        }
      }
    }
    visiting.remove(spec);
    out
  }
  inner(g, spec, &mut BTreeSet::new())
}

// ------------------------------------------------------------ generated packages

fn signature_fragments(p: &Pkg, f: usize, d: usize) -> Vec<String> {
  // fragments of the source's public signature that must be carried over
  // unchanged (whitespace-insensitive)
  let decl = &p.files[f].decls[d];
  let src = render_file(p, f);
  let mut out = vec![];
  let find_line = |needle: &str| -> Option<String> {
    src.lines().find(|l| l.contains(needle)).map(|l| l.to_string())
  };
  match decl.kind {
    DK::Interface => {
      // whole interface body
      if let Some(start) = src.find(&format!("interface {}", decl.name)) {
        let rest = &src[start..];
        if let Some(end) = rest.find("\n}\n") {
          out.push(rest[..end + 2].to_string());
        }
      }
    }
    DK::TypeAlias => {
      if let Some(l) = find_line(&format!("type {}", decl.name)) {
        out.push(l.trim_start_matches("export ").trim_end_matches(';').to_string());
      }
    }
    DK::Enum | DK::ConstEnum => {
      out.push(format!("enum {}", decl.name));
    }
    DK::OverloadedFunction => {
      for l in src.lines().filter(|l| l.contains(&format!("function {}(", decl.name)) && l.trim_end().ends_with(';')) {
        out.push(l.trim_start_matches("export ").to_string());
      }
    }
    DK::DeclareFunction => {
      if let Some(l) = find_line(&format!("declare function {}(", decl.name)) {
        out.push(l.trim_start_matches("export ").to_string());
      }
    }
    DK::Class | DK::AbstractClass => {
      for needle in ["  method(arg:", "  get prop():", "  set prop(value:", "  static create<U>(input: U):", "  over(a:", "  abstract todo(a:"] {
        // member signatures inside this class
        if let Some(cs) = src.find(&format!("class {}", decl.name)).or_else(|| src.find("export default class")) {
          let class_text = &src[cs..];
          let class_text = &class_text[..class_text.find("\n}\n").unwrap_or(class_text.len())];
          if let Some(l) = class_text.lines().find(|l| l.starts_with(needle)) {
            out.push(l.trim().trim_end_matches('{').trim().trim_end_matches(';').to_string());
          }
        }
      }
    }
    _ => {}
  }
  if matches!(decl.kind, DK::Class | DK::AbstractClass)
    && let Some(cs) = src.find(&format!("class {}", decl.name)).or_else(|| src.find("export default class"))
  {
    let class_text = &src[cs..];
    let class_text = &class_text[..class_text.find("\n}\n").unwrap_or(class_text.len())];
    // public parameter properties become declared properties with the
    // annotation the source wrote
    if class_text.contains("  constructor(public param:") {
      out.push("declare level: number | string;".to_string());
      out.push("declare readonly tag: \"a\" | \"b\";".to_string());
    }
    // also when the constructor has overload signatures and the implementation declares them
    if class_text.contains("  constructor(public px: any, readonly py?: any)") {
      out.push("declare px: any;".to_string());
      out.push("declare readonly py?: any;".to_string());
    }
  }
  out
}

pub fn check_generated(acc: &mut Acc, pkgs: &[Pkg], g: &ModuleGraph, fx: &FcCtx) {
  let ems = emitted_modules(g);
  let by_spec: BTreeMap<String, &EmittedModule> = ems.iter().map(|e| (e.specifier.clone(), e)).collect();
  for p in pkgs {
    let (public, api_exported) = public_set_detail(p, true);
    let public_without_ns_default = public_set_opt(p, false);
    let any_dirty = p.files.iter().any(|f| f.decls.iter().any(|d| d.dirty.is_some()));
    let entry_files: BTreeSet<usize> = p.exports.iter().map(|(_, f)| *f).collect();
    if any_dirty {
      acc.count("dirty_packages");
      if fx.which == "C10" {
        // a diagnostic instead of output
        let pkg_prefix = format!("https://jsr.io/{}/{}/", p.name, p.version);
        let any_output = ems.iter().any(|e| e.specifier.starts_with(&pkg_prefix));
        let mut diag_specs = vec![];
        for m in g.modules() {
          if let Some(js) = m.js()
            && js.specifier.as_str().starts_with(&pkg_prefix)
            && let Some(d) = js.fast_check_diagnostics()
          {
            for x in d {
              diag_specs.push((js.specifier.to_string(), x.to_string(), x.range().map(|r| (r.specifier.to_string(), r.range.start - r.text_info.range().start))));
            }
          }
        }
        let dirty_decl: Vec<(usize, &Decl)> = p
          .files
          .iter()
          .enumerate()
          .flat_map(|(fi, f)| f.decls.iter().filter(|d| d.dirty.is_some()).map(move |d| (fi, d)))
          .collect();
        let (dfile, ddecl) = dirty_decl[0];
        let kind = format!("{:?}", ddecl.dirty.unwrap());
        if any_output {
          acc.violation(
            format!("non-inferable-public-declaration-got-output/{}", kind),
            format!("{} was spoiled ({}) but the package has fast-check output", ddecl.name, kind),
            json!({"ctx": fx.ctx}),
          );
        } else if diag_specs.is_empty() {
          acc.violation(
            format!("non-inferable-public-declaration-without-diagnostic/{}", kind),
            format!("{} was spoiled ({}) and there is neither output nor a diagnostic", ddecl.name, kind),
            json!({"ctx": fx.ctx}),
          );
        } else {
          acc.count("dirty_packages_with_diagnostic");
          // the diagnostic points into the spoiled declaration
          let src = render_file(p, dfile);
          let durl = file_url(p, dfile);
          // span of the top-level item that declares the spoiled declaration
          let _ = &src;
          let mut spans = parse_ts(&url(&durl), &src, deno_graph::MediaType::TypeScript, false)
            .ok()
            .map(|p| top_level_spans(&p, &ddecl.name))
            .unwrap_or_default();
          if spans.is_empty() {
            spans.push((0, src.len()));
          }
          let on_decl = diag_specs.iter().any(|(_, _, r)| {
            r.as_ref().is_some_and(|(s, off)| *s == durl && spans.iter().any(|(a, b)| *off >= *a && *off <= *b))
          });
          if !on_decl {
            acc.violation(
              format!("diagnostic-not-on-the-spoiled-declaration/{}", kind),
              format!("{} in {}; diagnostics at {:?}", ddecl.name, durl, diag_specs),
              json!({"ctx": fx.ctx}),
            );
          }
        }
      }
      continue;
    }
    acc.count("clean_packages");
    for f in 0..p.files.len() {
      let u = file_url(p, f);
      let file_public: Vec<usize> = public.iter().filter(|(ff, _)| *ff == f).map(|(_, d)| *d).collect();
      let is_entry = entry_files.contains(&f);
      let Some(em) = by_spec.get(&u) else {
        if fx.which == "C12" || fx.which == "C11" {
          // a file with public declarations (or an entrypoint) must have output
          let file_public_strict: Vec<usize> = public_without_ns_default.iter().filter(|(ff, _)| *ff == f).map(|(_, d)| *d).collect();
          if !file_public_strict.is_empty() || is_entry {
            let diags: Vec<String> = g
              .get(&url(&u))
              .and_then(|m| m.js())
              .and_then(|j| j.fast_check_diagnostics().cloned())
              .unwrap_or_default()
              .iter()
              .map(|d| d.to_string())
              .collect();
            let any_pkg_diag = g.modules().any(|m| m.js().is_some_and(|j| j.fast_check_diagnostics().is_some()));
            acc.violation(
              if any_pkg_diag {
                format!("clean-package-got-diagnostics/{}", g.modules().filter_map(|m| m.js()).filter_map(|j| j.fast_check_diagnostics()).flatten().next().map(|d| d.to_string().split(' ').take(4).collect::<Vec<_>>().join(" ")).unwrap_or_default())
              } else {
                "public-module-without-output".to_string()
              },
              format!("{} has public declarations but no fast-check module; diagnostics: {:?}", u, diags),
              json!({"ctx": fx.ctx}),
            );
          }
        }
        continue;
      };
      if fx.which != "C11" {
        continue;
      }
      let w = |d: Value| json!({"ctx": fx.ctx, "module": u, "original": em.original, "emitted": em.emitted, "detail": d});
      let Ok(pe) = parse_ts(&url(&u), &em.emitted, em.media, false) else { continue };
      let top = module_top(&pe);
      // ---- exports of entrypoints are exactly the generator's intent
      if is_entry {
        acc.count("entrypoints_checked");
        let intended = export_names(p, f);
        let mut tops = BTreeMap::new();
        for e in &ems {
          if let Ok(pp) = parse_ts(&url(&e.specifier), &e.emitted, e.media, false) {
            tops.insert(e.specifier.clone(), module_top(&pp));
          }
        }
        let emitted = emitted_exports(&u, &tops, &mut BTreeSet::new()).unwrap_or_default();
        if emitted != intended {
          let missing: Vec<_> = intended.difference(&emitted).collect();
          let extra: Vec<_> = emitted.difference(&intended).collect();
          let expando_defaults: BTreeSet<String> = ems.iter().flat_map(|e| default_fn_expando_names(&e.original, &e.emitted)).collect();
          let via = if missing.is_empty() && !extra.is_empty() && extra.iter().all(|n| expando_defaults.contains(*n)) {
            "extra/default-exported-function-with-expando-properties-becomes-a-named-export"
          } else if missing.iter().any(|n| n.as_str() == "default") {
            "default"
          } else if missing.iter().any(|n| n.starts_with("ns")) {
            "namespace re-export"
          } else if !missing.is_empty() {
            "named"
          } else {
            "extra"
          };
          acc.violation(
            format!("exports/entrypoint-export-set-differs/{}", via),
            format!("{}: missing {:?}, extra {:?}", u, missing, extra),
            w(json!({"intended": intended, "emitted": emitted})),
          );
        }
      }
      // ---- presence / absence
      let stripped = strip_ws(&em.emitted);
      for (di, d) in p.files[f].decls.iter().enumerate() {
        let is_public = public.contains(&(f, di));
        let anonymous_default = false;
        let present = top.decls.contains_key(&d.name) || (anonymous_default && top.exports.contains("default"));
        acc.count(if is_public { "public_declarations_checked" } else { "private_declarations_checked" });
        if is_public && !present {
          let only_via_ns_default = !public_without_ns_default.contains(&(f, di));
          acc.violation(
            if only_via_ns_default {
              "public-declaration-absent/reachable-only-as-default-of-a-namespace-re-export".to_string()
            } else {
              format!("public-declaration-absent/{:?}", d.kind)
            },
            format!("{}: `{}` is reachable from the public API but is not declared in the output", u, d.name),
            w(json!({})),
          );
        }
        if !is_public && present {
          // a private declaration may be kept when a *kept* declaration of the
          // same name exists (type/value merging): names are unique here
          acc.violation(
            format!("private-declaration-kept/{:?}", d.kind),
            format!("{}: `{}` is neither exported nor referenced from the public API but is declared in the output", u, d.name),
            w(json!({})),
          );
        }
        if is_public && present && d.kind == DK::Namespace {
          // members of a namespace: all exported ones when the namespace is
          // an export of the API, only `Inner` when a signature names it
          let whole = api_exported.contains(&(f, di));
          let ns_text = {
            let key = format!("namespace {} {{", d.name);
            stripped.find(&strip_ws(&key)).map(|i| &stripped[i..]).unwrap_or("")
          };
          acc.count(if whole { "namespaces_checked/whole" } else { "namespaces_checked/qualified-member-only" });
          let expect: &[(&str, bool)] = &[
            ("exportinterfaceInner{", true),
            ("exportconstk:", whole),
            ("exportfunctionnf(", whole),
            ("exportnamespaceDeep{", whole),
          ];
          // the namespace's text ends where the next top-level declaration starts; the members are unique to this shape, so searching the tail up to the next `namespace <Name> {` of another declaration is enough
          let end = ns_text[1..].find("namespaceNs").map(|i| i + 1).unwrap_or(ns_text.len());
          let ns_text = &ns_text[..end];
          for (needle, wanted) in expect {
            let has = ns_text.contains(needle);
            if *wanted && !has {
              acc.violation(
                format!("public-namespace-member-absent/{}", if whole { "whole-namespace-exported" } else { "qualified-reference" }),
                format!("{}: namespace `{}` lacks `{}` in the output", u, d.name, needle),
                w(json!({})),
              );
            }
          }
        }
        if is_public && present {
          for frag in signature_fragments(p, f, di) {
            acc.count("signature_fragments_checked");
            if !stripped.contains(&strip_ws(&frag)) {
              acc.violation(
                format!("signature-not-carried-over/{:?}", d.kind),
                format!("{}: `{}` — source has {:?}", u, d.name, frag),
                w(json!({})),
              );
            }
          }
        }
      }
    }
  }
}

// ------------------------------------------------------------ corpus

pub struct SpecWorld {
  pub name: String,
  pub world: World,
  pub entry: String,
  pub workspace_members: Vec<deno_graph::WorkspaceMember>,
  pub workspace_fast_check: bool,
}

pub fn load_fast_check_specs() -> Vec<SpecWorld> {
  let mut out = vec![];
  let Ok(rd) = std::fs::read_dir("/repo/tests/specs/graph/fast_check") else { return out };
  let mut files: Vec<_> = rd.flatten().map(|e| e.path()).filter(|p| p.extension().is_some_and(|x| x == "txt")).collect();
  files.sort();
  for f in files {
    let Ok(text) = std::fs::read_to_string(&f) else { continue };
    let mut body = text.as_str();
    let mut options: Value = json!({});
    if body.starts_with("~~ ")
      && let Some(end) = body.find(" ~~\n")
    {
      options = serde_json::from_str(&body[3..end]).unwrap_or(json!({}));
      body = &body[end + 4..];
    }
    let mut files: Vec<(String, Vec<(String, String)>, String)> = vec![];
    let mut cur: Option<(String, Vec<(String, String)>, String)> = None;
    for line in body.split('\n') {
      if let Some(s) = line.strip_prefix("# ") {
        if let Some(c) = cur.take() {
          files.push(c);
        }
        cur = Some((s.trim().to_string(), vec![], String::new()));
      } else if let Some(h) = line.strip_prefix("HEADERS: ") {
        if let Some(c) = cur.as_mut()
          && let Ok(Value::Object(m)) = serde_json::from_str::<Value>(h)
        {
          c.1 = m.into_iter().map(|(k, v)| (k, v.as_str().unwrap_or("").to_string())).collect();
        }
      } else if let Some(c) = cur.as_mut() {
        if !c.2.is_empty() {
          c.2.push('\n');
        }
        c.2.push_str(line);
      }
    }
    if let Some(c) = cur.take() {
      files.push(c);
    }
    let mut members: Vec<deno_graph::WorkspaceMember> = vec![];
    let mut world = World::new();
    let mut skip = false;
    // jsr manifests: fill checksums
    let mut by_url: BTreeMap<String, (Vec<(String, String)>, String, bool)> = BTreeMap::new();
    for (spec, headers, content) in files {
      if spec == "output" || spec == "lockfile_jsr_packages" {
        continue;
      }
      if spec == "workspace_members" {
        if let Ok(v) = serde_json::from_str::<Vec<deno_graph::WorkspaceMember>>(&content) {
          members = v;
        }
        continue;
      }
      if spec.contains("<=") {
        skip = true;
        continue;
      }
      let is_cache = spec.starts_with("cache:");
      let s = spec.strip_prefix("cache:").unwrap_or(&spec);
      let u = if s.contains("://") { s.to_string() } else { format!("file:///{}", s) };
      by_url.insert(url(&u).to_string(), (headers, content, is_cache));
    }
    if skip {
      continue;
    }
    // manifest checksums
    let urls: Vec<String> = by_url.keys().cloned().collect();
    for u in &urls {
      if let Some(rest) = u.strip_prefix("https://jsr.io/")
        && let Some(nv) = rest.strip_suffix("_meta.json")
      {
        let prefix = format!("https://jsr.io/{}/", nv);
        let mut manifest = serde_json::Map::new();
        for (fu, (_, content, _)) in by_url.iter() {
          if let Some(path) = fu.strip_prefix(&prefix) {
            manifest.insert(
              format!("/{}", path),
              json!({"size": content.len(), "checksum": format!("sha256-{}", sha256_hex(content.as_bytes()))}),
            );
          }
        }
        if let Some(entry) = by_url.get_mut(u)
          && let Ok(Value::Object(mut meta)) = serde_json::from_str::<Value>(&entry.1)
        {
          let m = meta.entry("manifest").or_insert(json!({}));
          if let Some(mo) = m.as_object_mut() {
            for (k, v) in manifest {
              mo.entry(k).or_insert(v);
            }
          }
          entry.1 = Value::Object(meta).to_string();
        }
      }
    }
    for (u, (headers, content, is_cache)) in by_url {
      let resp = match headers.iter().find(|(k, _)| k == "location") {
        Some((_, loc)) => Resp::Redirect(url(&u).join(loc).map(|x| x.to_string()).unwrap_or(loc.clone())),
        None => Resp::Module {
          headers,
          content: content.into_bytes(),
          final_spec: None,
        },
      };
      if is_cache {
        world.add_cache(&u, resp);
      } else {
        world.add(&u, resp);
      }
    }
    out.push(SpecWorld {
      name: f.file_name().unwrap().to_string_lossy().to_string(),
      world,
      entry: options["entrypoint"].as_str().unwrap_or("file:///mod.ts").to_string(),
      workspace_members: members,
      workspace_fast_check: options["workspaceFastCheck"].as_bool().unwrap_or(false),
    });
  }
  out
}

#[derive(Debug)]
struct WsResolver(Vec<deno_graph::WorkspaceMember>);
impl deno_graph::source::Resolver for WsResolver {
  fn resolve(
    &self,
    text: &str,
    referrer_range: &deno_graph::Range,
    _k: deno_graph::source::ResolutionKind,
  ) -> Result<deno_graph::ModuleSpecifier, deno_graph::source::ResolveError> {
    if let Ok(r) = deno_semver::jsr::JsrPackageReqReference::from_str(text) {
      for m in &self.0 {
        if m.name == r.req().name
          && m.version.as_ref().map(|v| r.req().version_req.matches(v)).unwrap_or(true)
        {
          let key = r.sub_path().map(|s| format!("./{}", s)).unwrap_or(".".into());
          if let Some(e) = m.exports.get(&key) {
            return Ok(m.base.join(e).unwrap());
          }
        }
      }
    }
    Ok(deno_graph::resolve_import(text, &referrer_range.specifier)?)
  }
}

pub fn fast_check_spec(sw: &SpecWorld, cache: Option<&dyn deno_graph::fast_check::FastCheckCache>) -> Result<ModuleGraph, PanicInfo> {
  use deno_graph::source::Loader;
  let loader = ScriptedLoader::new(&sw.world);
  let analyzer = deno_graph::ast::CapturingModuleAnalyzer::default();
  let resolver = WsResolver(sw.workspace_members.clone());
  let npm = ScriptedNpmResolver::default();
  let mut graph = ModuleGraph::new(deno_graph::GraphKind::All);
  catch(|| {
    crate::sched::block_on(graph.build(
      vec![url(&sw.entry)],
      vec![],
      &loader as &dyn Loader,
      deno_graph::BuildOptions {
        module_analyzer: &analyzer,
        executor: &crate::sched::InlineExecutor,
        resolver: Some(&resolver),
        npm_resolver: Some(&npm),
        ..Default::default()
      },
    ));
    if graph.module_errors().next().is_none() {
      graph.build_fast_check_type_graph(deno_graph::BuildFastCheckTypeGraphOptions {
        fast_check_cache: cache,
        fast_check_dts: false,
        jsr_url_provider: Default::default(),
        es_parser: Some(&analyzer),
        resolver: None,
        workspace_fast_check: if sw.workspace_fast_check {
          deno_graph::WorkspaceFastCheckOption::Enabled(&sw.workspace_members)
        } else {
          deno_graph::WorkspaceFastCheckOption::Disabled
        },
      });
    }
  })?;
  Ok(graph)
}

// ------------------------------------------------------------ drivers

fn gen_case(i: usize, seed: u64, acc: &mut Acc, which: &str) {
  let mut rng = Rng::new(seed).fork(i as u64 ^ 0xFC);
  let dirty = which == "C10" && rng.chance(1, 4);
  let n_files = rng.range(1, 5);
  let p = gen_pkg(&mut rng, "@s/pkg", n_files, dirty);
  let pkgs = vec![p];
  let world = build_pkgs_world(&pkgs);
  let ctx = json!({"packages": pkgs.iter().map(pkg_json).collect::<Vec<_>>()});
  acc.eval();
  let g = match fast_check_world(&world, None, false) {
    Ok(g) => g,
    Err(pn) => {
      acc.violation(format!("panic/{}", pn.signature()), pn.message.clone(), ctx);
      return;
    }
  };
  if g.module_errors().next().is_some() {
    acc.count("generator_world_with_module_errors");
    acc.set_add(
      "module_error_examples",
      g.module_errors().next().unwrap().to_string().lines().next().unwrap_or("").to_string(),
    );
    return;
  }
  let fx = FcCtx { which, ctx: ctx.clone() };
  let ems = emitted_modules(&g);
  let cross = ems.iter().any(|e| e.emitted.contains(" from \"") || e.emitted.contains("import("));
  if !ems.is_empty() && cross {
    acc.nontrivial(hash64(&pkgs));
  }
  for p in &pkgs {
    for f in &p.files {
      for d in &f.decls {
        acc.count(&format!("decl:{:?}", d.kind));
        if let Some(x) = d.dirty {
          acc.count(&format!("dirty:{:?}", x));
        }
      }
    }
    for (k, n) in feature_counts(p) {
      acc.count_n(k, n);
    }
  }
  check_emitted_generic(acc, &g, &fx);
  check_generated(acc, &pkgs, &g, &fx);
  if i < 2 {
    acc.sample(json!({"package": pkg_json(&pkgs[0]),
      "emitted": ems.iter().map(|e| json!({"module": e.specifier, "text": e.emitted})).collect::<Vec<_>>()}));
  }
}

fn corpus_case(acc: &mut Acc, which: &str) {
  for sw in load_fast_check_specs() {
    acc.eval();
    let ctx = json!({"spec": sw.name});
    match fast_check_spec(&sw, None) {
      Err(p) => acc.violation(format!("panic/{}", p.signature()), format!("{}: {}", sw.name, p.message), ctx),
      Ok(g) => {
        acc.count("corpus_specs_run");
        let fx = FcCtx { which, ctx };
        let n = emitted_modules(&g).len();
        acc.count_n("corpus_emitted_modules", n as u64);
        check_emitted_generic(acc, &g, &fx);
      }
    }
  }
}

pub fn run(which: &'static str, tier: Tier, seed: u64) -> i32 {
  let mut rep = Report::new(which, tier, seed);
  let common = "packages are rendered from a declaration graph (14 declaration kinds: functions incl. async/generic/overloaded/declared, classes and abstract classes with every member kind and modifier incl. TS-private, ES-private, \
    parameter properties, accessors, statics, interfaces, type aliases, enums, const enums, typed / literal / arrow / function-expression constants, namespaces with nested members; default exports; exported or private; \
    typed reference edges in signatures and in bodies across 1-4 files through named, namespace, type-only imports and inline import types; named / star / namespace re-exports; 1-2 entrypoints), served as a JSR package and run through the real build_fast_check_type_graph; \
    plus every package of tests/specs/graph/fast_check";
  match which {
    "C09" => {
      rep.rule = format!("{}. Every emitted module is re-parsed with scope analysis: it must parse; an identifier left unresolved in the output that the original bound at module level (and resolved) is a dangling reference; every named import / re-export from a relative specifier must name an export of the target's emitted counterpart (star re-exports expanded), which must exist; relative specifiers must resolve to graph modules; the source map must be JSON with the module as only source, decodable VLQ, positions inside both texts, and identifier-starting segments mapping to the same identifier (modifier keywords aside; UTF-16 columns). non-trivial = package whose output has cross-module references; distinct by package", common);
      rep.floor("cross_module_references_checked", 500);
      rep.floor("source_map_identifier_segments", 5000);
      rep.floor("corpus_emitted_modules", 50);
    }
    "C10" => {
      rep.rule = format!("{}. Clean packages: the erasure grammar of DESIGN Appendix B is checked on the re-parsed output (bodies empty or a placeholder return, placeholder super calls, no statements, literal-like initialisers only, every parameter typed or literal-like default, explicit return types, TS-private members reduced to `declare any`, no ES-private members other than one synthesised brand, no decorators / static blocks / parameter properties / destructuring). A quarter of the packages are dirty (one public declaration spoiled: missing return type, untyped or destructured parameter, untyped non-literal property, untyped call-initialised constant): they must yield no output and a diagnostic located on the spoiled declaration. non-trivial and distinct as for C09", common);
      rep.floor("dirty_packages_with_diagnostic", 50);
      rep.floor("shape:function-like returning placeholder", 500);
      rep.floor("shape:private member as declare any", 200);
      rep.floor("shape:#private brand", 200);
    }
    _ => {
      rep.rule = format!("{}. Entrypoints: emitted export names (star re-exports expanded over emitted modules) equal the generator's intended export set; every emitted module's exports are a subset of the original's; declarations keep their kind; signatures the source wrote (interface bodies, type aliases, overload signatures, class member signatures) appear unchanged in the output (whitespace-insensitive); every declaration reachable from the public API is declared in the output and every other one is not. non-trivial and distinct as for C09", common);
      rep.floor("entrypoints_checked", 500);
      rep.floor("public_declarations_checked", 2000);
      rep.floor("private_declarations_checked", 1000);
      rep.floor("signature_fragments_checked", 2000);
    }
  }
  rep.assumptions = vec![
    "swc's resolver (deno_ast scope analysis) decides what is unresolved; globals are unresolved in both original and output and pass".into(),
    "enum member initialisers are declaration syntax (kept verbatim by design); counted".into(),
  ];
  rep.min_nontrivial = tier.pick(300, 10_000);
  let n = tier.pick(18000, 1440000);
  let mut acc = par_run(n, |i, acc| gen_case(i, seed, acc, which));
  corpus_case(&mut acc, which);
  rep.finish(acc)
}

/// names N for which the original has `export default function N` with expando assignments (`N.x = ...`) and the
/// emitted module declares `export namespace N` (the synthesised expando namespace carries `export` because the
/// function has an export keyword - but that keyword exports `default`, not `N`)
fn default_fn_expando_names(original: &str, emitted: &str) -> BTreeSet<String> {
  let mut out = BTreeSet::new();
  for marker in ["export default function ", "export default async function "] {
    let mut rest = original;
    while let Some(i) = rest.find(marker) {
      let after = &rest[i + marker.len()..];
      let name: String = after.chars().take_while(|c| c.is_alphanumeric() || *c == '_' || *c == '$').collect();
      if !name.is_empty()
        && original.contains(&format!("\n{}.", name))
        && emitted.contains(&format!("export namespace {} {{", name))
      {
        out.insert(name);
      }
      rest = after;
    }
  }
  out
}
