// Monitors shared by C02 (validation) and C15 (walk): drive the real
// iterator / errors() / validate() and compare with the evaluator.
#![allow(dead_code)]

use crate::common::*;
use crate::eval::*;
use deno_graph::CheckJsOption;
use deno_graph::CheckJsResolver;
use deno_graph::GraphKind;
use deno_graph::ModuleEntryRef;
use deno_graph::ModuleGraph;
use deno_graph::ModuleSpecifier;
use deno_graph::WalkOptions;
use serde_json::Value;
use serde_json::json;
use std::collections::BTreeSet;

#[derive(Debug)]
pub struct SetCheckJs(pub BTreeSet<String>);
impl CheckJsResolver for SetCheckJs {
  fn resolve(&self, specifier: &ModuleSpecifier) -> bool {
    self.0.contains(specifier.as_str())
  }
}

pub fn opts_json(o: &EvalOpts) -> Value {
  json!({
    "kind": format!("{:?}", o.kind), "follow_dynamic": o.follow_dynamic,
    "check_js": match &o.check_js { CheckJs::True => json!(true), CheckJs::False => json!(false), CheckJs::Custom(s) => json!(s) },
    "prefer_fast_check": o.prefer_fast_check,
  })
}

pub fn random_opts(rng: &mut Rng, graph: &ModuleGraph) -> EvalOpts {
  let kind = *rng.pick(&[GraphKind::All, GraphKind::CodeOnly, GraphKind::TypesOnly]);
  let check_js = match rng.below(3) {
    0 => CheckJs::True,
    1 => CheckJs::False,
    _ => CheckJs::Custom(
      graph
        .modules()
        .filter(|_| rng.coin())
        .map(|m| m.specifier().to_string())
        .collect(),
    ),
  };
  EvalOpts {
    kind,
    follow_dynamic: rng.coin(),
    check_js,
    prefer_fast_check: rng.coin(),
  }
}

fn with_walk_options<T>(
  o: &EvalOpts,
  f: impl FnOnce(WalkOptions<'_>) -> T,
) -> T {
  let custom;
  let check_js = match &o.check_js {
    CheckJs::True => CheckJsOption::True,
    CheckJs::False => CheckJsOption::False,
    CheckJs::Custom(s) => {
      custom = SetCheckJs(s.clone());
      CheckJsOption::Custom(&custom)
    }
  };
  f(WalkOptions {
    check_js,
    follow_dynamic: o.follow_dynamic,
    kind: o.kind,
    prefer_fast_check_graph: o.prefer_fast_check,
  })
}

/// C15: the yielded set (with an optional random skip pattern).
pub fn check_walk_set(
  acc: &mut Acc,
  graph: &ModuleGraph,
  roots: &[ModuleSpecifier],
  o: &EvalOpts,
  rng: &mut Rng,
  skip_rate: u32, // out of 8
  ctx: &Value,
) {
  acc.eval();
  let mut yielded: Vec<String> = vec![];
  let mut skipped: BTreeSet<String> = BTreeSet::new();
  with_walk_options(o, |wo| {
    let mut it = graph.walk(roots.iter(), wo);
    let mut steps = 0usize;
    while let Some((s, entry)) = it.next() {
      steps += 1;
      if steps > 100_000 {
        break;
      }
      yielded.push(s.to_string());
      if let ModuleEntryRef::Module(_) = entry
        && skip_rate > 0
        && rng.chance(skip_rate, 8)
      {
        it.skip_previous_dependencies();
        skipped.insert(s.to_string());
      }
    }
  });
  let exp = evaluate(graph, roots, o, &skipped);
  let got: BTreeSet<String> = yielded.iter().cloned().collect();
  if exp.visited.len() >= 2 {
    acc.nontrivial(hash64(&(
      ctx.to_string(),
      roots.iter().map(|r| r.as_str()).collect::<Vec<_>>(),
      opts_json(o).to_string(),
      skipped.iter().collect::<Vec<_>>(),
    )));
  }
  acc.count(&format!("walk_kind:{:?}", o.kind));
  if !skipped.is_empty() {
    acc.count("walks_with_skips");
  }
  if o.prefer_fast_check {
    acc.count("walks_prefer_fast_check");
  }
  acc.max("walk_set_size", exp.visited.len() as u64);
  let w = || {
    json!({"ctx": ctx, "roots": roots.iter().map(|r| r.as_str()).collect::<Vec<_>>(),
      "options": opts_json(o), "skipped": skipped, "yielded": yielded,
      "expected": exp.visited})
  };
  if got.len() != yielded.len() {
    acc.violation(
      format!("walk-yields-duplicate/{:?}", o.kind),
      "a specifier was yielded more than once",
      w(),
    );
  }
  if got != exp.visited {
    let extra: Vec<_> = got.difference(&exp.visited).cloned().collect();
    let missing: Vec<_> = exp.visited.difference(&got).cloned().collect();
    let dir = if !extra.is_empty() && !missing.is_empty() {
      "both"
    } else if !extra.is_empty() {
      "extra"
    } else {
      "missing"
    };
    acc.violation(
      format!(
        "walk-set-differs/{}/{:?}/dyn={}/fc={}/skip={}",
        dir,
        o.kind,
        o.follow_dynamic,
        o.prefer_fast_check,
        !skipped.is_empty()
      ),
      format!("walk yields extra {:?}, lacks {:?}", extra, missing),
      w(),
    );
  }
  // cross-check the evaluator against the naive fixpoint formulation
  if skipped.is_empty() {
    let fx = visited_fixpoint(graph, roots, o);
    if fx != exp.visited {
      acc.inconclusive.push(format!(
        "evaluator self-check failed: worklist {:?} vs fixpoint {:?}",
        exp.visited, fx
      ));
    }
  }
}

/// C02 (+ C15's error clause): validate()/errors() against the evaluator.
pub fn check_errors(
  acc: &mut Acc,
  graph: &ModuleGraph,
  roots: &[ModuleSpecifier],
  o: &EvalOpts,
  ctx: &Value,
  default_valid: bool,
) {
  acc.eval();
  let exp = evaluate(graph, roots, o, &BTreeSet::new());
  let (errs, verdict) = with_walk_options(o, |wo| {
    let errs: Vec<_> = graph.walk(roots.iter(), wo.clone()).errors().collect();
    let verdict = graph.walk(roots.iter(), wo).validate();
    (errs, verdict)
  });
  let has_failure_somewhere = graph.module_errors().next().is_some()
    || graph.modules().any(|m| {
      m.dependencies().values().any(|d| {
        d.maybe_code.err().is_some() || d.maybe_type.err().is_some()
      })
    })
    || !exp.failures.is_empty();
  if has_failure_somewhere {
    acc.nontrivial(hash64(&(
      ctx.to_string(),
      roots.iter().map(|r| r.as_str()).collect::<Vec<_>>(),
      opts_json(o).to_string(),
    )));
  }
  acc.count(if exp.failures.is_empty() {
    "expected_verdict:ok"
  } else {
    "expected_verdict:err"
  });
  for f in exp.failures.keys() {
    acc.count(&format!("failure_class:{}", f.class));
  }
  let w = |extra: Value| {
    json!({"ctx": ctx, "roots": roots.iter().map(|r| r.as_str()).collect::<Vec<_>>(),
      "options": opts_json(o), "detail": extra,
      "expected_failures": exp.failures.iter().map(|(k, v)| json!([k.class, k.subject, v])).collect::<Vec<_>>(),
      "reported": errs.iter().map(|e| e.to_string_with_range()).collect::<Vec<_>>()})
  };
  let sig_tail = format!(
    "{:?}/dyn={}/cj={}",
    o.kind,
    o.follow_dynamic,
    match &o.check_js {
      CheckJs::True => "t",
      CheckJs::False => "f",
      CheckJs::Custom(_) => "c",
    }
  );
  let reported: Vec<(FailureId, String)> = errs.iter().map(identify).collect();
  let reported_ids: BTreeSet<FailureId> =
    reported.iter().map(|(i, _)| i.clone()).collect();
  let mut skipped_known = 0;
  for (fid, _refs) in &exp.failures {
    if !reported_ids.contains(fid) {
      let sig = if fid.class == "missing" && o.follow_dynamic {
        if exp.missing_without_edge.contains(&fid.subject) {
          skipped_known += 1;
          "reachable-failure-skipped/missing/no-incoming-edge/follow_dynamic".to_string()
        } else {
          format!("reachable-failure-skipped/missing/follow_dynamic/{}", sig_tail)
        }
      } else {
        format!("reachable-failure-skipped/{}/{}", fid.class, sig_tail)
      };
      acc.violation(
        sig,
        format!(
          "{} at {} is reachable but errors() does not report it",
          fid.class, fid.subject
        ),
        w(json!({"skipped": [fid.class, fid.subject]})),
      );
    }
  }
  for (fid, referrer) in &reported {
    match exp.failures.get(fid) {
      None => acc.violation(
        format!("unreachable-failure-reported/{}/{}", fid.class, sig_tail),
        format!("errors() reports {} at {} which is not reachable", fid.class, fid.subject),
        w(json!({"reported": [fid.class, fid.subject]})),
      ),
      Some(acceptable) => {
        if !acceptable.contains(referrer) {
          acc.violation(
            format!("wrong-referrer/{}/{}", fid.class, sig_tail),
            format!(
              "{} at {} reported with referrer {:?}; acceptable {:?}",
              fid.class, fid.subject, referrer, acceptable
            ),
            w(json!({"reported": [fid.class, fid.subject, referrer]})),
          );
        }
      }
    }
  }
  // verdict equivalence
  let all_skipped_known =
    !exp.failures.is_empty() && skipped_known == exp.failures.len();
  match &verdict {
    Ok(()) => {
      acc.count("verdict:ok");
      if !exp.failures.is_empty() && !all_skipped_known {
        acc.violation(
          format!("validate-ok-but-failure-reachable/{}", sig_tail),
          "validate() is Ok although a failure is reachable",
          w(json!({})),
        );
      }
    }
    Err(e) => {
      acc.count("verdict:err");
      let (fid, _) = identify(e);
      if !exp.failures.contains_key(&fid) {
        acc.violation(
          format!("validate-err-not-in-set/{}/{}", fid.class, sig_tail),
          format!("validate() returned {} at {} which is not a reachable failure", fid.class, fid.subject),
          w(json!({})),
        );
      }
    }
  }
  if default_valid {
    // graph.valid() == walk(roots of the graph, CodeOnly, no dynamic, check_js true)
    let v = graph.valid();
    let groots: Vec<ModuleSpecifier> = graph.roots.iter().cloned().collect();
    let e2 = evaluate(
      graph,
      &groots,
      &EvalOpts {
        kind: GraphKind::CodeOnly,
        follow_dynamic: false,
        check_js: CheckJs::True,
        prefer_fast_check: false,
      },
      &BTreeSet::new(),
    );
    acc.count("valid()_calls");
    if v.is_ok() != e2.failures.is_empty() {
      acc.violation(
        "valid-verdict-differs",
        format!(
          "valid() is {} but reachable code failures = {:?}",
          if v.is_ok() { "Ok" } else { "Err" },
          e2.failures.keys().collect::<Vec<_>>()
        ),
        w(json!({})),
      );
    }
  }
}
