// C13 — module information survives serialisation; manifest shortcut equals parsing.
use crate::c08::gen_program;
use crate::common::*;
use crate::reg::*;
use crate::world::*;
use deno_graph::GraphKind;
use deno_graph::ModuleGraph;
use deno_graph::analysis::ModuleInfo;
use deno_graph::ast::ParserModuleAnalyzer;
use deno_graph::packages::JsrPackageVersionInfo;
use serde_json::Value;
use serde_json::json;
use std::sync::Arc;

// ------------------------------------------------------------ (a) round trip

fn roundtrip_one(acc: &mut Acc, info: &ModuleInfo, ctx: &Value, idx: u64) {
  acc.eval();
  let v = match serde_json::to_value(info) {
    Ok(v) => v,
    Err(e) => {
      acc.violation("roundtrip/serialize-failed", e.to_string(), ctx.clone());
      return;
    }
  };
  if v.as_object().is_some_and(|o| !o.is_empty()) {
    acc.nontrivial(idx);
  }
  for k in v.as_object().map(|o| o.keys().cloned().collect::<Vec<_>>()).unwrap_or_default() {
    acc.count(&format!("field:{}", k));
  }
  match serde_json::from_value::<ModuleInfo>(v.clone()) {
    Err(e) => acc.violation(
      "roundtrip/deserialize-failed",
      format!("{} for {}", e, v),
      ctx.clone(),
    ),
    Ok(back) => {
      if &back != info {
        // which field?
        let field = [
          ("is_script", back.is_script == info.is_script),
          ("dependencies", back.dependencies == info.dependencies),
          ("ts_references", back.ts_references == info.ts_references),
          ("self_types_specifier", back.self_types_specifier == info.self_types_specifier),
          ("jsx_import_source", back.jsx_import_source == info.jsx_import_source),
          ("jsx_import_source_types", back.jsx_import_source_types == info.jsx_import_source_types),
          ("jsdoc_imports", back.jsdoc_imports == info.jsdoc_imports),
          ("source_map_url", back.source_map_url == info.source_map_url),
        ]
        .iter()
        .find(|(_, ok)| !ok)
        .map(|(n, _)| *n)
        .unwrap_or("?");
        acc.violation(
          format!("roundtrip/lossy/{}", field),
          format!("json {} reads back as a different value", v),
          json!({"ctx": ctx, "json": v, "original": format!("{:?}", info), "read_back": format!("{:?}", back)}),
        );
        return;
      }
      let v2 = serde_json::to_value(&back).unwrap();
      if v2 != v {
        acc.violation("roundtrip/unstable-json", format!("{} vs {}", v, v2), ctx.clone());
      }
      // through a string as well (what the registry stores)
      let s = serde_json::to_string(info).unwrap();
      match serde_json::from_str::<ModuleInfo>(&s) {
        Ok(b2) if &b2 == info => {}
        _ => acc.violation("roundtrip/string-form", s, ctx.clone()),
      }
    }
  }
}

fn roundtrip(tier: Tier, seed: u64) -> Acc {
  let n = tier.pick(160000usize, 19200000);
  let chunk = 500;
  let mut acc = par_run(n / chunk, |ci, acc| {
    let mut rng = Rng::new(seed).fork(ci as u64 ^ 0xC13);
    let analyzer = ParserModuleAnalyzer::default();
    for j in 0..chunk {
      let mut p = gen_program(&mut rng, None);
      // extra shapes the round trip must carry: template arguments with and
      // without literal text, require(), resolution-mode attributes
      if p.media != deno_graph::MediaType::Dts && rng.chance(1, 3) {
        p.source.push_str(match rng.below(7) {
          0 => "const t1 = import(`${a}`);\n",
          1 => "const t2 = import(`${a}${b}`);\n",
          2 => "const t3 = import(`./dir/${a}.ts`);\n",
          3 => "const t4 = import(`./x/${a}/y/${b}`);\n",
          4 => "const r1 = require('./cjs.cjs');\n",
          5 => "const t5 = import(`./only-text.ts`);\n",
          _ => "const e1 = import(x, { with: { type: 'json' } });\n",
        });
      }
      let Ok(info) = analyzer.analyze_sync(&p.specifier, Arc::from(p.source.as_str()), p.media)
      else {
        continue;
      };
      let ctx = json!({"source": p.source, "language": p.lang_name});
      roundtrip_one(acc, &info, &ctx, (ci * chunk + j) as u64);
      if ci == 0 && j < 2 {
        acc.sample(json!({"source": p.source, "module_info": serde_json::to_value(&info).unwrap()}));
      }
    }
  });
  // hand-built values for field combinations the analyser rarely produces
  let mut rng = Rng::new(seed ^ 0xABCD);
  for k in 0..tier.pick(3000, 30_000) {
    let v = random_module_info_json(&mut rng);
    if let Ok(info) = serde_json::from_value::<ModuleInfo>(v.clone()) {
      acc.count("handbuilt_values");
      roundtrip_one(&mut acc, &info, &json!({"handbuilt_json": v}), (1u64 << 41) + k as u64);
    }
  }
  acc
}

fn random_module_info_json(rng: &mut Rng) -> Value {
  let range = |rng: &mut Rng| json!([[rng.below(5), rng.below(40)], [rng.below(5) + 5, rng.below(40)]]);
  let mut deps = vec![];
  for _ in 0..rng.below(4) {
    if rng.coin() {
      let mut d = serde_json::Map::new();
      d.insert("type".into(), json!("static"));
      d.insert(
        "kind".into(),
        json!(*rng.pick(&["import", "importType", "importEquals", "export", "exportType", "exportEquals", "maybeTsModuleAugmentation", "importSource", "importDefer"])),
      );
      d.insert("specifier".into(), json!("./a.ts"));
      d.insert("specifierRange".into(), range(rng));
      if rng.coin() {
        d.insert("typesSpecifier".into(), json!({"text": "./a.d.ts", "range": range(rng)}));
      }
      if rng.coin() {
        d.insert("sideEffect".into(), json!(rng.coin()));
      }
      match rng.below(4) {
        0 => {
          d.insert("importAttributes".into(), json!("unknown"));
        }
        1 => {
          d.insert("importAttributes".into(), json!({"known": {"type": "json", "x": null}}));
        }
        2 => {
          d.insert("importAttributes".into(), json!({"known": {}}));
        }
        _ => {}
      }
      deps.push(Value::Object(d));
    } else {
      let mut d = serde_json::Map::new();
      d.insert("type".into(), json!("dynamic"));
      if rng.coin() {
        d.insert("kind".into(), json!(*rng.pick(&["import", "require", "importSource", "importDefer"])));
      }
      match rng.below(5) {
        0 => {
          d.insert("argument".into(), json!("./b.ts"));
        }
        1 => {
          d.insert("argument".into(), json!([{"type": "string", "value": "./c/"}, {"type": "expr"}]));
        }
        2 => {
          d.insert("argument".into(), json!([{"type": "expr"}]));
        }
        3 => {
          d.insert("argument".into(), json!([]));
        }
        _ => {}
      }
      d.insert("argumentRange".into(), range(rng));
      if rng.coin() {
        d.insert("typesSpecifier".into(), json!({"text": "./b.d.ts", "range": range(rng)}));
      }
      deps.push(Value::Object(d));
    }
  }
  let mut o = serde_json::Map::new();
  if rng.coin() {
    o.insert("script".into(), json!(rng.coin()));
  }
  if !deps.is_empty() || rng.coin() {
    o.insert("dependencies".into(), Value::Array(deps));
  }
  if rng.coin() {
    o.insert(
      "tsReferences".into(),
      json!([{"type": "path", "text": "./p.d.ts", "range": range(rng)},
             {"type": "types", "text": "./t.d.ts", "range": range(rng), "resolutionMode": *rng.pick(&["import", "require"])},
             {"type": "types", "text": "./u.d.ts", "range": range(rng)}]),
    );
  }
  if rng.coin() {
    o.insert("selfTypesSpecifier".into(), json!({"text": "./s.d.ts", "range": range(rng)}));
  }
  if rng.coin() {
    o.insert("jsxImportSource".into(), json!({"text": "preact", "range": range(rng)}));
  }
  if rng.coin() {
    o.insert("jsxImportSourceTypes".into(), json!({"text": "preact-types", "range": range(rng)}));
  }
  if rng.coin() {
    o.insert(
      "jsdocImports".into(),
      json!([{"text": "./j.ts", "range": range(rng)}, {"text": "./k.ts", "range": range(rng), "resolutionMode": "require"}]),
    );
  }
  if rng.coin() {
    o.insert("sourceMapUrl".into(), json!({"text": "./m.js.map", "range": range(rng)}));
  }
  Value::Object(o)
}

// ------------------------------------------------------------ (b) v1 upgrade

fn v1_upgrade(tier: Tier, seed: u64) -> Acc {
  let mut acc = Acc::new();
  let mut rng = Rng::new(seed ^ 0x0131);
  let specs = ["./a.d.ts", "https://x.test/types/mod.d.ts", "./dép/ç.d.ts", "./😀.d.ts", "npm:@types/x"];
  let prefixes = [" ", "", "  ", "\t", "\u{a0}", "\u{2003} "];
  for k in 0..tier.pick(4000, 60_000) {
    acc.eval();
    let n_deps = rng.range(1, 4);
    let mut deps = vec![];
    let mut expected: Vec<Option<(String, (usize, usize), (usize, usize))>> = vec![];
    for _ in 0..n_deps {
      let mut d = serde_json::Map::new();
      d.insert("type".into(), json!("static"));
      d.insert("kind".into(), json!("import"));
      d.insert("specifier".into(), json!("./mod.js"));
      d.insert("specifierRange".into(), json!([[9, 0], [9, 10]]));
      match rng.below(4) {
        0 => {
          expected.push(None); // no leadingComments key at all
        }
        1 => {
          d.insert("leadingComments".into(), json!([{"text": " just a comment", "range": [[1, 0], [1, 17]]}]));
          expected.push(None);
        }
        _ => {
          let spec = *rng.pick(&specs);
          let prefix = *rng.pick(&prefixes);
          let quote = *rng.pick(&["\"", "'"]);
          let text = format!("{}@deno-types={}{}{}", prefix, quote, spec, quote);
          let line = rng.below(8);
          let col = rng.below(12);
          // the comment starts at (line, col) with `//`; its text follows
          let before_chars = prefix.chars().count() + "@deno-types=".len();
          let start = (line, col + 2 + before_chars);
          let end = (line, col + 2 + before_chars + 1 + spec.chars().count() + 1);
          let mut comments = vec![];
          if rng.coin() {
            comments.push(json!({"text": " unrelated é", "range": [[line.saturating_sub(1), 0], [line.saturating_sub(1), 14]]}));
          }
          comments.push(json!({"text": text, "range": [[line, col], [line, col + 2 + text.chars().count()]]}));
          d.insert("leadingComments".into(), Value::Array(comments));
          expected.push(Some((spec.to_string(), start, end)));
        }
      }
      deps.push(Value::Object(d));
    }
    let v1 = json!({"/mod.js": {"dependencies": deps}});
    let vi = JsrPackageVersionInfo {
      exports: json!({}),
      module_graph_1: Some(v1.clone()),
      module_graph_2: None,
      manifest: Default::default(),
      lockfile_checksum: None,
    };
    let ctx = json!({"moduleGraph1": v1});
    let info = match catch(|| vi.module_info("/mod.js")) {
      Err(p) => {
        acc.violation(format!("panic/{}", p.signature()), p.message.clone(), ctx);
        continue;
      }
      Ok(None) => {
        acc.violation("v1-upgrade/module-info-unreadable", "module_info() returned None", ctx);
        continue;
      }
      Ok(Some(i)) => i,
    };
    if expected.iter().any(|e| e.is_some()) {
      acc.nontrivial((1u64 << 42) + k as u64);
    }
    acc.count("v1_module_infos");
    if info.dependencies.len() != expected.len() {
      acc.violation("v1-upgrade/dependency-count", format!("{:?}", info), ctx);
      continue;
    }
    for (i, (d, e)) in info.dependencies.iter().zip(expected.iter()).enumerate() {
      let got = match d {
        deno_graph::analysis::DependencyDescriptor::Static(s) => s.types_specifier.clone(),
        deno_graph::analysis::DependencyDescriptor::Dynamic(s) => s.types_specifier.clone(),
      };
      match (got, e) {
        (None, None) => {}
        (Some(g), None) => acc.violation(
          "v1-upgrade/types-specifier-invented",
          format!("dependency {}: {:?}", i, g),
          ctx.clone(),
        ),
        (None, Some(e)) => {
          let first_without = expected[..i].iter().any(|x| x.is_none());
          acc.violation(
            format!(
              "v1-upgrade/deno-types-lost/{}",
              if first_without { "after-dependency-without-comments" } else { "plain" }
            ),
            format!("dependency {} lost @deno-types {:?}", i, e.0),
            ctx.clone(),
          );
        }
        (Some(g), Some(e)) => {
          acc.count("v1_deno_types_checked");
          if g.text != e.0 {
            acc.violation("v1-upgrade/deno-types-text", format!("{:?} vs {:?}", g.text, e.0), ctx.clone());
          } else {
            let gr = ((g.range.start.line, g.range.start.character), (g.range.end.line, g.range.end.character));
            if gr != (e.1, e.2) {
              let ascii = ctx.to_string().is_ascii();
              acc.violation(
                format!("v1-upgrade/deno-types-range/{}", if ascii { "ascii" } else { "non-ascii-comment" }),
                format!("range {:?}, the quoted specifier spans {:?}", gr, (e.1, e.2)),
                ctx.clone(),
              );
            }
          }
        }
      }
    }
  }
  acc
}

// ------------------------------------------------------------ (c) manifest shortcut

/// which embedded formats the manifests carry
#[derive(Clone, Copy, Debug, PartialEq, Eq)]
pub enum Embed {
  V2,
  V1,
  /// both: `moduleGraph2` from this analyser, and a `moduleGraph1` as an older publisher rendered it (it knows
  /// nothing of `@ts-types`, so those entries lack the types specifier); the newer format has to win
  Both,
}

pub fn embed_module_graphs(w: &mut RegWorld, v1: bool) {
  embed_module_graphs_as(w, if v1 { Embed::V1 } else { Embed::V2 })
}

fn strip_types_specifiers(v: &mut Value) {
  match v {
    Value::Object(o) => {
      o.remove("typesSpecifier");
      for (_, x) in o.iter_mut() {
        strip_types_specifiers(x);
      }
    }
    Value::Array(a) => a.iter_mut().for_each(strip_types_specifiers),
    _ => {}
  }
}

pub fn embed_module_graphs_as(w: &mut RegWorld, mode: Embed) {
  let analyzer = ParserModuleAnalyzer::default();
  for p in w.pkgs.iter_mut() {
    for v in p.versions.iter_mut() {
      let mut mg = serde_json::Map::new();
      for f in &v.files {
        let u = url(&pkg_file_url(&p.name, &v.version, &f.path));
        if f.path.ends_with(".wasm") {
          // the registry analyses the declarations generated for the binary
          if let Ok(dts) = deno_graph::source::wasm::wasm_module_to_dts(&file_bytes(f))
            && let Ok(info) = analyzer.analyze_sync(&u, Arc::from(dts.as_str()), deno_graph::MediaType::Dmts)
          {
            mg.insert(f.path.clone(), serde_json::to_value(&info).unwrap());
          }
          continue;
        }
        let src = render_imports(&f.imports);
        if let Ok(info) = analyzer.analyze_sync(&u, Arc::from(src.as_str()), deno_graph::MediaType::TypeScript) {
          mg.insert(f.path.clone(), serde_json::to_value(&info).unwrap());
        }
      }
      match mode {
        Embed::V1 => {
          v.module_graph1 = Some(Value::Object(mg).to_string());
          v.module_graph2 = None;
        }
        Embed::V2 => {
          v.module_graph2 = Some(Value::Object(mg).to_string());
          v.module_graph1 = None;
        }
        Embed::Both => {
          let mut old = Value::Object(mg.clone());
          strip_types_specifiers(&mut old);
          v.module_graph2 = Some(Value::Object(mg).to_string());
          v.module_graph1 = Some(old.to_string());
        }
      }
    }
  }
}

fn graph_view(g: &ModuleGraph) -> Value {
  let mut v = graph_json(g);
  // nothing to normalise: the claim is identity of the serialised graph
  if let Some(o) = v.as_object_mut() {
    o.remove("roots");
    // fields the serialisation skips: the declarations derived from Wasm
    // modules and the bytes they were derived from
    let wasm: serde_json::Map<String, Value> = g
      .modules()
      .filter_map(|m| match m {
        deno_graph::Module::Wasm(w) => Some((w.specifier.to_string(), json!({"dts": w.source_dts.to_string(), "bytes": w.source.len()}))),
        _ => None,
      })
      .collect();
    if !wasm.is_empty() {
      o.insert("wasm_modules".into(), Value::Object(wasm));
    }
  }
  v
}

fn shortcut(tier: Tier, seed: u64) -> Acc {
  let n = tier.pick(4800, 640000);
  par_run(n, |i, acc| {
    let mut rng = Rng::new(seed).fork(i as u64 ^ 0x5C);
    let mut plain = gen_reg_world(&mut rng);
    plain.reload_only_versions.clear();
    plain.prefer_cached = false;
    plain.cached_manifests.clear();
    // import attributes inside packages: a text import of a sibling code
    // module (an asset: external, its own imports not followed) and a json
    // assertion on a code module (an error), with and without the shortcut
    let with_attrs = rng.chance(1, 3);
    if with_attrs {
      for p in plain.pkgs.iter_mut() {
        for v in p.versions.iter_mut() {
          if let Some(f) = v.files.iter_mut().find(|f| f.path == "/mod.ts") {
            match rng.below(3) {
              0 => f.imports.push(Imp::Text("./internal.ts".into())),
              1 => f.imports.push(Imp::JsonAttr("./sub.ts".into())),
              _ => {
                f.imports.push(Imp::Text("./sub.ts".into()));
                f.imports.push(Imp::JsonAttr("./internal.ts".into()));
              }
            }
          }
        }
      }
      acc.count("worlds_with_import_attributes_in_packages");
    }
    // a WebAssembly file inside the package (its declarations are derived
    // from the bytes, also when the manifest embeds module info)
    if rng.chance(1, 3) {
      for p in plain.pkgs.iter_mut() {
        for v in p.versions.iter_mut() {
          v.files.push(RFile { path: "/calc.wasm".into(), imports: vec![Imp::Static("./internal.ts".into())] });
          if let Some(f) = v.files.iter_mut().find(|f| f.path == "/mod.ts") {
            f.imports.push(Imp::Static("./calc.wasm".into()));
          }
        }
      }
      acc.count("worlds_with_wasm_in_packages");
    }
    // `@ts-types` on an import inside a package: the types dependency only the newer embedded format carries
    if rng.chance(1, 3) {
      for p in plain.pkgs.iter_mut() {
        for v in p.versions.iter_mut() {
          if let Some(f) = v.files.iter_mut().find(|f| f.path == "/mod.ts") {
            f.imports.push(Imp::TsTypes("./internal.ts".into(), "./sub.ts".into()));
          }
        }
      }
      acc.count("worlds_with_ts_types_in_packages");
    }
    let mut embedded = plain.clone();
    let mode = *rng.pick(&[Embed::V2, Embed::V2, Embed::V1, Embed::Both, Embed::Both]);
    let v1 = mode == Embed::V1;
    embed_module_graphs_as(&mut embedded, mode);
    acc.count(&format!("embedded_format:{:?}", mode));
    let kind = *rng.pick(&[GraphKind::All, GraphKind::CodeOnly]);
    // one registry file whose served bytes no longer match the manifest checksum, on every path (a conforming
    // loader rejects it whenever it is handed the checksum): both renderings must report it the same way
    let tampered: Option<String> = if rng.chance(1, 4) {
      let files: Vec<String> = plain
        .pkgs
        .iter()
        .flat_map(|p| p.versions.iter().flat_map(move |v| v.files.iter().map(move |f| pkg_file_url(&p.name, &v.version, &f.path))))
        .collect();
      if files.is_empty() { None } else { Some(rng.pick(&files).clone()) }
    } else {
      None
    };
    // a loader that reports cache info (a resource is known once a load of it completed)
    let cache_info = rng.chance(1, 3);
    let tamper_bytes = |loader: &mut ScriptedLoader| {
      if let Some(t) = &tampered {
        let mut bytes = match loader.world.remote.get(t) {
          Some(Resp::Module { content, .. }) => content.clone(),
          _ => vec![],
        };
        bytes.extend(b"\n/* changed after publishing */");
        loader.tamper.insert(t.clone(), bytes);
      }
      loader.cache_info = cache_info;
    };
    if tampered.is_some() {
      acc.count("worlds_with_a_file_not_matching_its_manifest_checksum");
    }
    if cache_info {
      acc.count("worlds_with_cache_info");
    }
    let fmt_name = match mode {
      Embed::V1 => "moduleGraph1",
      Embed::V2 => "moduleGraph2",
      Embed::Both => "moduleGraph1+2",
    };
    let ctx = json!({"world": plain.to_json(), "embedded_format": fmt_name, "kind": format!("{:?}", kind), "tampered": tampered, "cache_info": cache_info});
    acc.eval();
    let reference = {
      // same options as the compared builds
      let world = plain.to_world();
      let mut loader = ScriptedLoader::new(&world);
      tamper_bytes(&mut loader);
      let mut graph = ModuleGraph::new(kind);
      let cfg = BuildCfg {
        kind,
        npm: (!plain.no_npm_resolver).then(ScriptedNpmResolver::default),
        version_resolver: Some(plain.version_resolver()),
        unstable_text: true,
        ..Default::default()
      };
      for (req, ver) in &plain.lock_selected {
        let r = deno_semver::package::PackageReq::from_str(req).unwrap();
        graph.packages.add_nv(
          r.clone(),
          deno_semver::package::PackageNv { name: r.name.clone(), version: deno_semver::Version::parse_standard(ver).unwrap() },
        );
      }
      match catch(|| run_build(&mut graph, &plain.roots, &[], &loader, &cfg, None, Exec::Inline, None)) {
        Ok(_) => graph,
        Err(p) => {
          acc.violation(format!("panic/{}", p.signature()), p.message.clone(), ctx);
          return;
        }
      }
    };
    let reference_view = graph_view(&reference);
    let has_pkg_module = reference.modules().any(|m| m.specifier().as_str().starts_with(REGISTRY));
    for cached in [false, true] {
      let mut world = embedded.to_world();
      if cached {
        // every registry file is in the cache: the embedded info must be ignored
        for p in &embedded.pkgs {
          for v in &p.versions {
            for f in &v.files {
              let u = pkg_file_url(&p.name, &v.version, &f.path);
              world.add_cache(&u, Resp::Module { headers: vec![], content: file_bytes(f), final_spec: None });
            }
          }
        }
      }
      let mut loader = ScriptedLoader::new(&world);
      tamper_bytes(&mut loader);
      let mut graph = ModuleGraph::new(kind);
      let cfg = BuildCfg {
        kind,
        npm: (!embedded.no_npm_resolver).then(ScriptedNpmResolver::default),
        version_resolver: Some(embedded.version_resolver()),
        unstable_text: true,
        ..Default::default()
      };
      for (req, ver) in &embedded.lock_selected {
        let r = deno_semver::package::PackageReq::from_str(req).unwrap();
        graph.packages.add_nv(
          r.clone(),
          deno_semver::package::PackageNv {
            name: r.name.clone(),
            version: deno_semver::Version::parse_standard(ver).unwrap(),
          },
        );
      }
      if let Err(p) = catch(|| {
        run_build(&mut graph, &embedded.roots, &[], &loader, &cfg, None, Exec::Inline, None)
      }) {
        acc.violation(format!("panic/{}", p.signature()), p.message.clone(), ctx.clone());
        continue;
      }
      let log = loader.take_log();
      let probes = log.iter().filter(|e| e.cache_setting == "only" && !e.specifier.ends_with("meta.json")).count();
      acc.count_n("cache_only_probes", probes as u64);
      if has_pkg_module {
        acc.nontrivial(hash64(&(&plain, cached, v1, format!("{:?}", kind))));
        acc.count(if cached { "pairs:cached" } else { "pairs:uncached" });
      }
      let view = graph_view(&graph);
      if let Some(t) = &tampered {
        // the file's sources are not the ones the embedded information was produced from, so identity is not
        // demanded; but bytes that do not match the manifest checksum must never be admitted, whichever
        // rendering the manifest has
        for (g, which) in [(&reference, "parsed"), (&graph, "embedded")] {
          if let Some(m) = g.get(&url(t))
            && !matches!(m, deno_graph::Module::External(_))
          {
            acc.violation(
              format!("shortcut/content-not-matching-manifest-checksum-admitted/{}/{}/{}", which, if cached { "cached" } else { "uncached" }, fmt_name),
              format!("{} is served with bytes that do not hash to the manifest checksum, yet it is a module of the graph", t),
              ctx.clone(),
            );
          }
        }
        acc.count("tampered_pairs_checked");
        continue;
      }
      if view != reference_view {
        let d = first_diff(&reference_view, &view, String::new()).unwrap_or_default();
        let what = if d.contains("/redirects") {
          "redirects"
        } else if d.contains("error") {
          "errors"
        } else if d.contains("dependencies") {
          "dependencies"
        } else if d.contains("size") {
          "size"
        } else {
          "modules"
        };
        acc.violation(
          format!(
            "shortcut≠parsing/{}/{}/{}",
            what,
            if cached { "cached" } else { "uncached" },
            fmt_name
          ),
          format!("first difference at {}", d),
          ctx.clone(),
        );
      }
    }
    if i < 2 {
      acc.sample(json!({"world": plain.to_json(), "embedded_format": if v1 { "moduleGraph1" } else { "moduleGraph2" }}));
    }
  })
}

pub fn first_diff(a: &Value, b: &Value, path: String) -> Option<String> {
  match (a, b) {
    (Value::Object(x), Value::Object(y)) => {
      for k in x.keys().chain(y.keys()) {
        match (x.get(k), y.get(k)) {
          (Some(p), Some(q)) => {
            if let Some(d) = first_diff(p, q, format!("{}/{}", path, k)) {
              return Some(d);
            }
          }
          _ => return Some(format!("{}/{} (present on one side only)", path, k)),
        }
      }
      None
    }
    (Value::Array(x), Value::Array(y)) => {
      if x.len() != y.len() {
        return Some(format!("{} (array length {} vs {})", path, x.len(), y.len()));
      }
      for (i, (p, q)) in x.iter().zip(y.iter()).enumerate() {
        if let Some(d) = first_diff(p, q, format!("{}/{}", path, i)) {
          return Some(d);
        }
      }
      None
    }
    _ => (a != b).then(|| format!("{}: {} vs {}", path, a, b).chars().take(300).collect()),
  }
}

pub fn run(tier: Tier, seed: u64) -> i32 {
  let mut rep = Report::new("C13", tier, seed);
  rep.rule = "(a) round trip: ModuleInfo of every C08-generated program (plus template / require / attribute shapes) and of hand-built JSON values covering every field and enum variant: \
    from_value(to_value(info)) == info, stable JSON, and through a string; (b) v1 upgrade: generated moduleGraph1 entries (1-4 dependencies, with / without leadingComments, @deno-types comments with quoted ASCII and non-ASCII specifiers, \
    leading Unicode whitespace, preceded by unrelated comments) through JsrPackageVersionInfo::module_info: every @deno-types must come out as typesSpecifier with the right text and range; \
    (c) manifest shortcut: each generated registry world is published without embedded module information (reference, parsed) and with moduleGraph2 / moduleGraph1 computed by this analyser from the same sources, \
    built with registry files uncached and cached: the serialised graphs must be identical. non-trivial = info with at least one non-default field / world with a registry module; distinct by index or (world, cached, format, kind)"
    .into();
  rep.assumptions = vec!["embedded module information is produced by ParserModuleAnalyzer from the very sources served (the statement's proviso)".into()];
  rep.min_nontrivial = tier.pick(5000, 100_000);
  rep.floor("v1_deno_types_checked", 500);
  rep.floor("pairs:cached", 100);
  rep.floor("pairs:uncached", 100);
  rep.floor("handbuilt_values", 500);
  let mut acc = roundtrip(tier, seed);
  acc.merge(v1_upgrade(tier, seed));
  acc.merge(shortcut(tier, seed));
  rep.finish(acc)
}
