// Shared driver for the fast-check properties: build a graph over generated
// packages, run the real fast check, expose per-module results.
#![allow(dead_code)]

use crate::common::*;
use crate::pkg::*;
use crate::world::*;
use deno_graph::BuildFastCheckTypeGraphOptions;
use deno_graph::GraphKind;
use deno_graph::ModuleGraph;
use deno_graph::WorkspaceFastCheckOption;
use deno_graph::ast::CapturingModuleAnalyzer;
use deno_graph::fast_check::FastCheckCache;
use deno_graph::source::Loader;

pub fn main_source(pkgs: &[Pkg]) -> String {
  let mut s = String::new();
  for p in pkgs {
    for (k, _) in &p.exports {
      let sub = k.trim_start_matches('.');
      s.push_str(&format!("import \"jsr:{}@1{}\";\n", p.name, sub));
    }
  }
  s
}

pub fn build_pkgs_world(pkgs: &[Pkg]) -> World {
  let mut w = World::new();
  pkg_to_world(pkgs, &mut w);
  w.add_text("file:///main.ts", &main_source(pkgs));
  w
}

pub fn fast_check_world(
  world: &World,
  cache: Option<&dyn FastCheckCache>,
  dts: bool,
) -> Result<ModuleGraph, PanicInfo> {
  let loader = ScriptedLoader::new(world);
  let analyzer = CapturingModuleAnalyzer::default();
  let mut graph = ModuleGraph::new(GraphKind::All);
  catch(|| {
    crate::sched::block_on(graph.build(
      vec![url("file:///main.ts")],
      vec![],
      &loader as &dyn Loader,
      deno_graph::BuildOptions {
        module_analyzer: &analyzer,
        executor: &crate::sched::InlineExecutor,
        ..Default::default()
      },
    ));
    graph.build_fast_check_type_graph(BuildFastCheckTypeGraphOptions {
      fast_check_cache: cache,
      fast_check_dts: dts,
      jsr_url_provider: Default::default(),
      es_parser: Some(&analyzer),
      resolver: None,
      workspace_fast_check: WorkspaceFastCheckOption::Disabled,
    });
  })?;
  Ok(graph)
}

pub fn debug_print(seed: u64, dirty: bool) {
  let mut rng = Rng::new(seed);
  let p = gen_pkg(&mut rng, "@s/pkg", 3, dirty);
  let w = build_pkgs_world(std::slice::from_ref(&p));
  for f in 0..p.files.len() {
    println!("=== {} ===\n{}", p.files[f].path, render_file(&p, f));
  }
  println!("exports: {:?}", p.exports);
  println!("public: {:?}", public_set(&p).iter().map(|(f, d)| p.files[*f].decls[*d].name.clone()).collect::<Vec<_>>());
  let g = fast_check_world(&w, None, false).unwrap();
  for e in g.module_errors() {
    println!("MODULE ERROR {}", e.to_string_with_range());
  }
  for m in g.modules() {
    if let Some(js) = m.js() {
      if let Some(fc) = js.fast_check_module() {
        println!("--- fast check {} ---\n{}", js.specifier, fc.source);
      }
      if let Some(d) = js.fast_check_diagnostics() {
        for x in d {
          println!("--- DIAGNOSTIC {}: {} [{:?}]", js.specifier, x, x.range().map(|r| r.range.start));
        }
      }
    }
  }
}

pub fn debug_custom(files: &[(&str, &str)], exports: &[(&str, &str)]) {
  let mut w = World::new();
  let mut manifest = serde_json::Map::new();
  for (path, src) in files {
    manifest.insert(path.to_string(), serde_json::json!({"size": src.len(), "checksum": format!("sha256-{}", sha256_hex(src.as_bytes()))}));
    w.add_text(&format!("https://jsr.io/@s/pkg/1.0.0{}", path), src);
  }
  let ex: serde_json::Map<String, serde_json::Value> = exports.iter().map(|(k, v)| (k.to_string(), serde_json::json!(v))).collect();
  w.add_text("https://jsr.io/@s/pkg/meta.json", "{\"versions\":{\"1.0.0\":{}}}");
  w.add_text("https://jsr.io/@s/pkg/1.0.0_meta.json", &serde_json::json!({"exports": ex, "manifest": manifest}).to_string());
  let mut main = String::new();
  for (k, _) in exports {
    main.push_str(&format!("import \"jsr:@s/pkg@1{}\";\n", k.trim_start_matches('.')));
  }
  w.add_text("file:///main.ts", &main);
  let g = fast_check_world(&w, None, false).unwrap();
  for e in g.module_errors() {
    println!("MODULE ERROR {}", e.to_string_with_range());
  }
  for m in g.modules() {
    if let Some(js) = m.js() {
      if let Some(fc) = js.fast_check_module() {
        println!("--- fast check {} ---\n{}", js.specifier, fc.source);
      }
      if let Some(d) = js.fast_check_diagnostics() {
        for x in d {
          println!("--- DIAGNOSTIC {}: {}", js.specifier, x);
        }
      }
    }
  }
}
