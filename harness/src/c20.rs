// C20 — module text and original bytes are faithful to what the loader supplied.
//
// Enumeration of byte strings x charset x scheme x media type against the
// harness's own WHATWG decoders. Parsing is taken out of the picture with a
// ModuleAnalyzer that accepts any text (public API), so every byte string can
// become a JS/TS module.
use crate::common::*;
use crate::world::*;
use deno_graph::GraphKind;
use deno_graph::Module;
use deno_graph::ModuleGraph;
use deno_graph::ModuleSpecifier;
use deno_graph::analysis::ModuleAnalyzer;
use deno_graph::analysis::ModuleInfo;
use deno_graph::source::Loader;
use serde_json::json;
use std::sync::Arc;

// ------------------------------------------------------------ own decoders

/// WHATWG UTF-8 decode (maximal subpart replacement), no BOM handling.
pub fn decode_utf8(b: &[u8]) -> String {
  let mut out = String::new();
  let mut i = 0;
  while i < b.len() {
    let b0 = b[i];
    if b0 < 0x80 {
      out.push(b0 as char);
      i += 1;
      continue;
    }
    let (need, mut lo, mut hi, init) = match b0 {
      0xC2..=0xDF => (1, 0x80u8, 0xBFu8, (b0 & 0x1F) as u32),
      0xE0 => (2, 0xA0, 0xBF, (b0 & 0x0F) as u32),
      0xE1..=0xEC | 0xEE..=0xEF => (2, 0x80, 0xBF, (b0 & 0x0F) as u32),
      0xED => (2, 0x80, 0x9F, (b0 & 0x0F) as u32),
      0xF0 => (3, 0x90, 0xBF, (b0 & 0x07) as u32),
      0xF1..=0xF3 => (3, 0x80, 0xBF, (b0 & 0x07) as u32),
      0xF4 => (3, 0x80, 0x8F, (b0 & 0x07) as u32),
      _ => {
        out.push('\u{FFFD}');
        i += 1;
        continue;
      }
    };
    let mut cp = init;
    let mut j = i + 1;
    let mut ok = true;
    for _ in 0..need {
      if j >= b.len() || b[j] < lo || b[j] > hi {
        ok = false;
        break;
      }
      cp = (cp << 6) | (b[j] & 0x3F) as u32;
      lo = 0x80;
      hi = 0xBF;
      j += 1;
    }
    if ok {
      out.push(char::from_u32(cp).unwrap());
      i = j;
    } else {
      out.push('\u{FFFD}');
      i = j; // the bytes consumed so far form the maximal subpart
    }
  }
  out
}

pub fn decode_utf16(b: &[u8], be: bool) -> String {
  // WHATWG "shared UTF-16 decoder", transcribed step by step.
  let mut out = String::new();
  let mut lead_byte: Option<u8> = None;
  let mut lead_surrogate: Option<u16> = None;
  for &byte in b {
    let Some(lb) = lead_byte.take() else {
      lead_byte = Some(byte);
      continue;
    };
    let unit: u16 = if be {
      ((lb as u16) << 8) | byte as u16
    } else {
      ((byte as u16) << 8) | lb as u16
    };
    let mut pending = Some(unit);
    while let Some(unit) = pending.take() {
      if let Some(ls) = lead_surrogate.take() {
        if (0xDC00..=0xDFFF).contains(&unit) {
          let cp = 0x10000 + (((ls as u32) - 0xD800) << 10) + ((unit as u32) - 0xDC00);
          out.push(char::from_u32(cp).unwrap());
        } else {
          // restore the code unit to the queue, emit error
          out.push('\u{FFFD}');
          pending = Some(unit);
        }
        continue;
      }
      if (0xD800..=0xDBFF).contains(&unit) {
        lead_surrogate = Some(unit);
      } else if (0xDC00..=0xDFFF).contains(&unit) {
        out.push('\u{FFFD}');
      } else {
        out.push(char::from_u32(unit as u32).unwrap());
      }
    }
  }
  if lead_byte.is_some() || lead_surrogate.is_some() {
    out.push('\u{FFFD}');
  }
  out
}

pub fn decode_1252(b: &[u8]) -> String {
  const HI: [u32; 32] = [
    0x20AC, 0x81, 0x201A, 0x0192, 0x201E, 0x2026, 0x2020, 0x2021, 0x02C6, 0x2030,
    0x0160, 0x2039, 0x0152, 0x8D, 0x017D, 0x8F, 0x90, 0x2018, 0x2019, 0x201C,
    0x201D, 0x2022, 0x2013, 0x2014, 0x02DC, 0x2122, 0x0161, 0x203A, 0x0153, 0x9D,
    0x017E, 0x0178,
  ];
  b.iter()
    .map(|&c| {
      if (0x80..0xA0).contains(&c) {
        char::from_u32(HI[(c - 0x80) as usize]).unwrap()
      } else {
        c as char
      }
    })
    .collect()
}

#[derive(Clone, Copy, Debug, PartialEq, Eq)]
pub enum Enc {
  Utf8,
  Utf16Le,
  Utf16Be,
  W1252,
  Replacement,
  Unsupported,
}

/// WHATWG label lookup for the labels the generator uses (case-insensitive,
/// surrounding ASCII whitespace ignored).
pub fn enc_for_label(label: &str) -> Enc {
  let l = label
    .trim_matches(|c| matches!(c, '\t' | '\n' | '\x0C' | '\r' | ' '))
    .to_ascii_lowercase();
  match l.as_str() {
    "utf-8" | "utf8" | "unicode-1-1-utf-8" | "unicode11utf8" | "x-unicode20utf8" => {
      Enc::Utf8
    }
    "utf-16le" | "utf-16" | "ucs-2" | "unicode" | "csunicode" | "unicodefeff"
    | "iso-10646-ucs-2" => Enc::Utf16Le,
    "utf-16be" | "unicodefffe" => Enc::Utf16Be,
    "windows-1252" | "us-ascii" | "ascii" | "latin1" | "iso-8859-1" | "l1"
    | "cp1252" | "x-cp1252" | "iso8859-1" => Enc::W1252,
    "iso-2022-kr" | "hz-gb-2312" | "iso-2022-cn" | "csiso2022kr" | "replacement" => {
      Enc::Replacement
    }
    _ => Enc::Unsupported,
  }
}

pub fn expected_text(bytes: &[u8], enc: Enc) -> Option<String> {
  let s = match enc {
    Enc::Utf8 => decode_utf8(bytes),
    Enc::Utf16Le => decode_utf16(bytes, false),
    Enc::Utf16Be => decode_utf16(bytes, true),
    Enc::W1252 => decode_1252(bytes),
    Enc::Replacement => {
      if bytes.is_empty() {
        String::new()
      } else {
        "\u{FFFD}".to_string()
      }
    }
    Enc::Unsupported => return None,
  };
  Some(s.strip_prefix('\u{FEFF}').map(|s| s.to_string()).unwrap_or(s))
}

// ------------------------------------------------------------ analyzer

pub struct AcceptAllAnalyzer;

#[async_trait::async_trait(?Send)]
impl ModuleAnalyzer for AcceptAllAnalyzer {
  async fn analyze(
    &self,
    _specifier: &ModuleSpecifier,
    _source: Arc<str>,
    _media_type: deno_graph::MediaType,
  ) -> Result<ModuleInfo, deno_error::JsErrorBox> {
    Ok(ModuleInfo::default())
  }
}

// ------------------------------------------------------------ cases

#[derive(Clone, Debug)]
pub struct Case {
  pub bytes: Vec<u8>,
  /// None = no content-type header at all
  pub charset: Option<&'static str>,
  pub remote: bool,
  /// 0 .js, 1 .ts, 2 .json as root, 3 .json through `with {type:"json"}`
  pub media: u8,
}

const CHARSETS: &[Option<&str>] = &[
  None,
  Some("utf-8"),
  Some("UTF-8"),
  Some(" utf8"),
  Some("utf-16le"),
  Some("utf-16be"),
  Some("UTF-16"),
  Some("windows-1252"),
  Some("us-ascii"),
  Some("iso-8859-1"),
  Some("iso-2022-kr"),
  Some("utf-32le"),
  Some("bogus-charset"),
  // headers present, but none that names a charset (same rule as no headers)
  Some("#content-type-without-charset"),
  Some("#unrelated-header-only"),
  Some("#empty-header-map"),
];

pub const ALPHABET: &[u8] = &[
  0x41, 0x0A, 0x00, 0x80, 0xA0, 0xBF, 0xC0, 0xC2, 0xE0, 0xED, 0xEF, 0xBB, 0xF0, 0xF4,
  0xFE, 0xFF, 0xD8, 0xDC,
];

const PREFIXES: &[&[u8]] = &[
  &[],
  &[0xEF, 0xBB, 0xBF],
  &[0xFF, 0xFE],
  &[0xFE, 0xFF],
  &[0xEF, 0xBB, 0xBF, 0xEF, 0xBB, 0xBF],
];

fn case_url(c: &Case, i: usize) -> String {
  let ext = match c.media {
    0 => "js",
    1 => "ts",
    _ => "json",
  };
  if c.remote {
    format!("https://h.test/m{}.{}", i, ext)
  } else {
    format!("file:///m{}.{}", i, ext)
  }
}

fn content_type(c: &Case) -> Option<String> {
  let mt = match c.media {
    0 => "application/javascript",
    1 => "application/typescript",
    _ => "application/json",
  };
  // the charset parameter may sit anywhere in the parameter list, with or without blanks around it
  c.charset.filter(|cs| !cs.starts_with('#')).map(|cs| {
    match crate::common::hash64(&(&c.bytes, cs, c.media, c.remote)) % 6 {
      0 => format!("{};charset={}", mt, cs),
      1 => format!("{}; version=5; charset={}", mt, cs),
      2 => format!("{} ;  boundary=x ;   charset={}  ", mt, cs),
      3 => format!("{}; charset={}; profile=\"x\"", mt, cs),
      _ => format!("{}; charset={}", mt, cs),
    }
  })
}

fn headers_of(c: &Case) -> Vec<(String, String)> {
  let mt = match c.media {
    0 => "application/javascript",
    1 => "application/typescript",
    _ => "application/json",
  };
  match c.charset {
    Some("#content-type-without-charset") => vec![("content-type".to_string(), mt.to_string())],
    Some("#unrelated-header-only") => vec![("x-served-by".to_string(), "harness".to_string())],
    Some("#empty-header-map") => vec![("#empty-map".to_string(), String::new())],
    _ => content_type(c).map(|ct| vec![("content-type".to_string(), ct)]).unwrap_or_default(),
  }
}

/// Runs one batch of cases through one real build and checks every module.
pub fn run_batch(cases: &[Case], acc: &mut Acc) {
  run_batch_opt(cases, acc, false)
}

/// `via_retry`: every remote module first fails its lockfile checksum (stale
/// cached bytes) and arrives through the cache-bypassing retry; the response
/// that finally supplies the bytes carries the headers.
pub fn run_batch_opt(cases: &[Case], acc: &mut Acc, via_retry: bool) {
  let mut world = World::new();
  let mut roots = vec![];
  for (i, c) in cases.iter().enumerate() {
    let u = case_url(c, i);
    let headers = headers_of(c);
    world.add(
      &u,
      Resp::Module {
        headers,
        content: c.bytes.clone(),
        final_spec: None,
      },
    );
    if c.media == 3 {
      let imp = if c.remote {
        format!("https://h.test/imp{}.ts", i)
      } else {
        format!("file:///imp{}.ts", i)
      };
      // the importer is analysed by the real parser? No: the accept-all analyzer
      // reports no dependencies, so attribute imports go through `reload`-free
      // path below (second build with the real analyzer).
      world.add_text(
        &imp,
        &format!("import d from \"./m{}.json\" with {{ type: \"json\" }};\n", i),
      );
      roots.push((imp, true));
    } else {
      roots.push((u, false));
    }
  }
  let mut loader = ScriptedLoader::new(&world);
  let mut locker = RecLocker::default();
  if via_retry {
    loader.reload_is_honest = true;
    for (i, c) in cases.iter().enumerate() {
      if c.remote && c.media != 3 {
        let u = url(&case_url(c, i)).to_string();
        loader.tamper.insert(u.clone(), b"stale cached copy".to_vec());
        locker.remote.insert(u, sha256_hex(&c.bytes));
        acc.count("cases_arriving_through_the_checksum_retry");
      }
    }
  }
  let mut graph = ModuleGraph::new(GraphKind::All);
  // modules needing the real parser (importers) are built separately
  let plain_roots: Vec<ModuleSpecifier> = roots
    .iter()
    .filter(|(_, real)| !real)
    .map(|(u, _)| url(u))
    .collect();
  let real_roots: Vec<ModuleSpecifier> = roots
    .iter()
    .filter(|(_, real)| *real)
    .map(|(u, _)| url(u))
    .collect();
  let analyzer = AcceptAllAnalyzer;
  let r = catch(|| {
    if !plain_roots.is_empty() {
      crate::sched::block_on(graph.build(
        plain_roots.clone(),
        vec![],
        &loader as &dyn Loader,
        deno_graph::BuildOptions {
          module_analyzer: &analyzer,
          executor: &crate::sched::InlineExecutor,
          locker: if via_retry { Some(&mut locker) } else { None },
          ..Default::default()
        },
      ));
    }
    if !real_roots.is_empty() {
      crate::sched::block_on(graph.build(
        real_roots.clone(),
        vec![],
        &loader as &dyn Loader,
        deno_graph::BuildOptions {
          executor: &crate::sched::InlineExecutor,
          ..Default::default()
        },
      ));
    }
  });
  if let Err(p) = r {
    acc.violation(
      format!("panic/{}", p.signature()),
      format!("build panicked: {}", p.message),
      json!({"cases": cases.iter().map(case_json).collect::<Vec<_>>()}),
    );
    return;
  }
  let gj = graph_json(&graph);
  let sizes: std::collections::HashMap<String, serde_json::Value> = gj["modules"]
    .as_array()
    .map(|a| {
      a.iter()
        .map(|m| (m["specifier"].as_str().unwrap_or("").to_string(), m.clone()))
        .collect()
    })
    .unwrap_or_default();
  for (i, c) in cases.iter().enumerate() {
    acc.eval();
    let u = url(&case_url(c, i));
    let enc = match c.charset.filter(|cs| !cs.starts_with('#')) {
      Some(cs) => enc_for_label(cs),
      None => {
        if !c.remote && c.bytes.starts_with(&[0xFF, 0xFE]) {
          Enc::Utf16Le
        } else if !c.remote && c.bytes.starts_with(&[0xFE, 0xFF]) {
          Enc::Utf16Be
        } else {
          Enc::Utf8
        }
      }
    };
    let exp = expected_text(&c.bytes, enc);
    if !c.bytes.is_empty() {
      acc.nontrivial(hash64(&(
        &c.bytes,
        c.charset,
        c.remote,
        c.media,
      )));
    }
    let cj = case_json(c);
    let entry = graph.try_get(&u);
    match (&exp, entry) {
      (None, Err(e)) => {
        acc.count("outcome:decode-error");
        let msg = e.to_string();
        if !msg.contains("Unsupported charset") {
          acc.violation(
            "undecodable/other-error",
            format!("unsupported charset gave a different error: {}", msg),
            cj,
          );
        }
      }
      (None, Ok(m)) => {
        acc.violation(
          "undecodable-became-module",
          format!("unsupported charset {:?} produced {:?}", c.charset, m.is_some()),
          cj,
        );
      }
      (Some(_), Err(e)) => {
        acc.violation(
          format!("decodable-became-error/{:?}", enc),
          format!("decodable input became an error entry: {}", e),
          cj,
        );
      }
      (Some(_), Ok(None)) => {
        acc.violation("module-absent", "module missing from graph", cj);
      }
      (Some(exp), Ok(Some(module))) => {
        let (src, size) = match module {
          Module::Js(m) => (&m.source, m.size()),
          Module::Json(m) => (&m.source, m.size()),
          _ => {
            acc.violation("unexpected-module-kind", "not a text module", cj);
            continue;
          }
        };
        acc.count(&format!("decoded_kind:{:?}", src.decoded_kind));
        acc.count(&format!("enc:{:?}", enc));
        if &*src.text != exp.as_str() {
          acc.violation(
            format!("text-mismatch/{:?}", enc),
            format!(
              "stored text {:?} != expected decoding {:?}",
              &*src.text, exp
            ),
            cj.clone(),
          );
        }
        let before = Arc::strong_count(&src.text);
        {
          let ob = src.try_get_original_bytes();
          match &ob {
            None => acc.count("original_bytes:none"),
            Some(b) => {
              acc.count("original_bytes:some");
              if b.as_ref() != c.bytes.as_slice() {
                acc.violation(
                  format!("original-bytes-differ/{:?}", src.decoded_kind),
                  format!(
                    "try_get_original_bytes() = {:02x?} but the loader supplied {:02x?}",
                    b.as_ref(),
                    c.bytes
                  ),
                  cj.clone(),
                );
              }
            }
          }
          // hold two at once, drop in the other order
          let ob2 = src.try_get_original_bytes();
          drop(ob);
          drop(ob2);
        }
        let after = Arc::strong_count(&src.text);
        if before != after {
          acc.violation(
            "refcount-changed",
            format!("strong count {} -> {} after dropping original bytes", before, after),
            cj.clone(),
          );
        }
        if size != src.text.len() {
          acc.violation("size-method", "size() != text byte length", cj.clone());
        }
        match sizes.get(u.as_str()).and_then(|m| m["size"].as_u64()) {
          Some(s) if s as usize == src.text.len() => {}
          other => {
            acc.violation(
              "size-serialized",
              format!("serialised size {:?} != text byte length {}", other, src.text.len()),
              cj.clone(),
            );
          }
        }
      }
    }
    if i == 0 {
      acc.sample(case_json(c));
    }
  }
}

fn case_json(c: &Case) -> serde_json::Value {
  json!({
    "bytes_hex": c.bytes.iter().map(|b| format!("{:02x}", b)).collect::<String>(),
    "charset": c.charset, "remote": c.remote, "media": c.media,
  })
}

pub fn gen_cases(tier: Tier, seed: u64, miri: bool) -> Vec<Case> {
  let mut strings: Vec<Vec<u8>> = vec![vec![]];
  let max_len = if miri { 1 } else { tier.pick(2, 3) };
  let mut frontier: Vec<Vec<u8>> = vec![vec![]];
  for _ in 0..max_len {
    let mut next = vec![];
    for s in &frontier {
      for &b in ALPHABET {
        let mut t = s.clone();
        t.push(b);
        next.push(t);
      }
    }
    strings.extend(next.iter().cloned());
    frontier = next;
  }
  let mut rng = Rng::new(seed);
  // longer random strings, incl. valid multi-byte text
  let n_rand = if miri { 30 } else { tier.pick(18000, 240000) };
  for _ in 0..n_rand {
    let len = rng.range(3, 24);
    let mut s = Vec::new();
    while s.len() < len {
      match rng.below(6) {
        0 => s.extend("é".as_bytes()),
        1 => s.extend("😀".as_bytes()),
        2 => s.extend("\u{FEFF}".as_bytes()),
        3 => s.push(*rng.pick(ALPHABET)),
        4 => s.extend(b"let a = 1;\n"),
        _ => s.push(rng.below(256) as u8),
      }
    }
    strings.push(s);
  }
  let mut cases = vec![];
  for s in &strings {
    for p in PREFIXES {
      let mut bytes = p.to_vec();
      bytes.extend(s);
      if miri {
        // small slice: two charsets per string chosen pseudo-randomly
        for _ in 0..2 {
          cases.push(Case {
            bytes: bytes.clone(),
            charset: *rng.pick(CHARSETS),
            remote: rng.coin(),
            media: rng.below(4) as u8,
          });
        }
        continue;
      }
      for cs in CHARSETS {
        for remote in [false, true] {
          // media types: rotate to keep the product bounded; every
          // (charset, remote, media) combination still occurs for many strings
          let medias: &[u8] = if tier == Tier::Thorough || s.len() <= 1 {
            &[0, 1, 2, 3]
          } else {
            match rng.below(4) {
              0 => &[0],
              1 => &[1],
              2 => &[2],
              _ => &[3],
            }
          };
          for &media in medias {
            cases.push(Case {
              bytes: bytes.clone(),
              charset: *cs,
              remote,
              media,
            });
          }
        }
      }
    }
  }
  cases
}

pub fn run(tier: Tier, seed: u64, miri: bool) -> i32 {
  let mut rep = Report::new("C20", tier, seed);
  rep.rule = "case = (byte string, content-type charset or none, file|https, media: js/ts/json-root/json-by-attribute); \
    all strings up to length 2 (quick) / 3 (thorough) over an 18-byte alphabet covering every UTF-8 lead/continuation/overlong/surrogate class, \
    each with 5 BOM prefixes, plus seeded random longer strings; oracle = harness's own WHATWG UTF-8/UTF-16/windows-1252/replacement decoders; \
    non-trivial = non-empty bytes; distinct by (bytes, charset, scheme, media)"
    .into();
  rep.assumptions = vec![
    "charset selection rule (header charset, else UTF-16 BOM sniff for file: URLs only, else UTF-8) is deno_media_type::detect_charset's documented contract".into(),
    "parsing is disabled through the public ModuleAnalyzer trait so arbitrary text can be a JS/TS module".into(),
  ];
  if miri {
    rep.extra.insert("engine".into(), json!("miri"));
  }
  let cases = gen_cases(tier, seed, miri);
  if !miri {
    rep.min_nontrivial = tier.pick(20_000, 200_000);
    rep.floor("decoded_kind:Unchanged", 100);
    rep.floor("decoded_kind:Changed", 100);
    rep.floor("decoded_kind:OnlyUtf8Bom", 100);
    rep.floor("outcome:decode-error", 100);
    rep.floor("registry_cache_only_probes", 1000);
    rep.floor("registry_decoded_kind:OnlyUtf8Bom", 50);
    rep.floor("registry_decoded_kind:Changed", 50);
  }
  let batch = if miri { 16 } else { 64 };
  let n_batches = cases.len().div_ceil(batch);
  let acc = if miri {
    let mut acc = Acc::new();
    for b in 0..n_batches {
      run_batch(&cases[b * batch..((b + 1) * batch).min(cases.len())], &mut acc);
    }
    acc
  } else {
    par_run(n_batches, |b, acc| {
      run_batch(&cases[b * batch..((b + 1) * batch).min(cases.len())], acc);
      if b % 8 == 3 {
        run_batch_opt(&cases[b * batch..((b + 1) * batch).min(cases.len())], acc, true);
      }
    })
  };
  let mut acc = acc;
  {
    // registry (deferred content load) slice: utf-8 only, js/ts/json
    let reg_cases: Vec<Case> = cases
      .iter()
      .filter(|c| c.charset.is_none() && c.remote)
      .map(|c| Case {
        media: c.media.min(2),
        ..c.clone()
      })
      .collect();
    let rb = 32;
    let n = reg_cases.len().div_ceil(rb);
    let acc2 = if miri {
      let mut a = Acc::new();
      for b in 0..n.min(2) {
        run_registry_batch(&reg_cases[b * rb..((b + 1) * rb).min(reg_cases.len())], &mut a);
      }
      a
    } else {
      par_run(n, |b, acc| {
        run_registry_batch(&reg_cases[b * rb..((b + 1) * rb).min(reg_cases.len())], acc)
      })
    };
    acc.merge(acc2);
  }
  rep.extra.insert("cases".into(), json!(cases.len()));
  if miri {
    // the Miri slice writes its own evidence file so that the native one
    // (full enumeration) is not overwritten
    rep.evidence_suffix = ".miri".into();
  }
  rep.finish(acc)
}

// ------------------------------------------------------------ registry path
//
// Files of a JSR package whose version manifest embeds module information are
// first represented by a placeholder and get their text from a *deferred*
// content load; that path builds the stored source separately.

pub fn run_registry_batch(cases: &[Case], acc: &mut Acc) {
  let mut world = World::new();
  let reg = "https://jsr.io/";
  let mut manifest = serde_json::Map::new();
  let mut module_graph = serde_json::Map::new();
  let mut exports = serde_json::Map::new();
  let mut main = String::new();
  for (i, c) in cases.iter().enumerate() {
    let ext = match c.media {
      0 => "js",
      1 => "ts",
      _ => "json",
    };
    let path = format!("/f{}.{}", i, ext);
    world.add(
      &format!("{}@s/p/1.0.0{}", reg, path),
      Resp::Module {
        headers: vec![],
        content: c.bytes.clone(),
        final_spec: None,
      },
    );
    manifest.insert(
      path.clone(),
      json!({"size": c.bytes.len(), "checksum": format!("sha256-{}", sha256_hex(&c.bytes))}),
    );
    module_graph.insert(path.clone(), json!({}));
    exports.insert(format!("./f{}", i), json!(format!(".{}", path)));
    if ext == "json" {
      main.push_str(&format!(
        "import j{} from \"jsr:@s/p@1/f{}\" with {{ type: \"json\" }};\n",
        i, i
      ));
    } else {
      main.push_str(&format!("import \"jsr:@s/p@1/f{}\";\n", i));
    }
  }
  world.add_text(
    &format!("{}@s/p/meta.json", reg),
    &json!({"versions": {"1.0.0": {}}}).to_string(),
  );
  world.add_text(
    &format!("{}@s/p/1.0.0_meta.json", reg),
    &json!({"exports": exports, "manifest": manifest, "moduleGraph2": module_graph}).to_string(),
  );
  world.add_text("file:///main.ts", &main);
  let loader = ScriptedLoader::new(&world);
  let mut graph = ModuleGraph::new(GraphKind::All);
  let r = catch(|| {
    crate::sched::block_on(graph.build(
      vec![url("file:///main.ts")],
      vec![],
      &loader as &dyn Loader,
      deno_graph::BuildOptions {
        executor: &crate::sched::InlineExecutor,
        ..Default::default()
      },
    ));
  });
  if let Err(p) = r {
    acc.violation(
      format!("panic/{}", p.signature()),
      format!("build panicked: {}", p.message),
      json!({"cases": cases.iter().map(case_json).collect::<Vec<_>>()}),
    );
    return;
  }
  let log = loader.take_log();
  let deferred = log
    .iter()
    .filter(|e| e.cache_setting == "only" && e.specifier.contains("/1.0.0/f"))
    .count();
  acc.count_n("registry_cache_only_probes", deferred as u64);
  for (i, c) in cases.iter().enumerate() {
    acc.eval();
    let ext = match c.media {
      0 => "js",
      1 => "ts",
      _ => "json",
    };
    let u = url(&format!("{}@s/p/1.0.0/f{}.{}", reg, i, ext));
    let exp = expected_text(&c.bytes, Enc::Utf8).unwrap();
    let cj = json!({"path": "registry-deferred-content-load", "case": case_json(c)});
    if !c.bytes.is_empty() {
      acc.nontrivial(hash64(&(&c.bytes, "registry", c.media)));
    }
    match graph.try_get(&u) {
      Ok(Some(module)) => {
        let src = match module {
          Module::Js(m) => &m.source,
          Module::Json(m) => &m.source,
          _ => continue,
        };
        acc.count(&format!("registry_decoded_kind:{:?}", src.decoded_kind));
        if &*src.text != exp.as_str() {
          acc.violation(
            "registry/text-mismatch",
            format!("stored {:?} expected {:?}", &*src.text, exp),
            cj.clone(),
          );
        }
        let before = Arc::strong_count(&src.text);
        {
          let ob = src.try_get_original_bytes();
          if let Some(b) = &ob
            && b.as_ref() != c.bytes.as_slice()
          {
            acc.violation(
              format!("registry/original-bytes-differ/{:?}", src.decoded_kind),
              format!(
                "try_get_original_bytes() = {:02x?}, loader supplied {:02x?}",
                b.as_ref(),
                c.bytes
              ),
              cj.clone(),
            );
          }
        }
        if Arc::strong_count(&src.text) != before {
          acc.violation("registry/refcount-changed", "strong count changed", cj.clone());
        }
        let size = match module {
          Module::Js(m) => m.size(),
          Module::Json(m) => m.size(),
          _ => 0,
        };
        if size != src.text.len() {
          acc.violation("registry/size", "size() != text length", cj.clone());
        }
      }
      Ok(None) => acc.violation("registry/module-absent", format!("{}", u), cj),
      Err(e) => {
        // a JS file that does not parse is not part of this path (embedded
        // module info is used); any error here is unexpected
        acc.violation(
          "registry/unexpected-error",
          format!("{}: {}", u, e),
          cj,
        );
      }
    }
  }
}
