// C03 — builds terminate with every reachable specifier settled under any faults.
//
// Fault enumeration with a differential oracle: phase A runs a world
// fault-free and records the load trace; phase B re-runs it once per
// (load call, fault kind) — and per pair / random k-subsets — and checks
// panic-freedom, completion, settled entries, referrers and independence.
use crate::c17::entries_summary;
use crate::common::*;
use crate::r#gen::*;
use crate::reg::*;
use crate::world::*;
use deno_graph::GraphKind;
use deno_graph::ModuleGraph;
use deno_graph::ModuleSpecifier;
use serde_json::Value;
use serde_json::json;
use std::collections::BTreeMap;
use std::collections::BTreeSet;

#[derive(Clone)]
enum AnyWorld {
  G(GWorld),
  R(RegWorld),
  /// hand-shaped world (served as is) with the unstable text / bytes import flags on
  Raw(Vec<String>),
}

struct Built {
  graph: ModuleGraph,
  log: Vec<LoadEvent>,
  delivered: Vec<CallKey>,
}

fn build_any(
  w: &AnyWorld,
  world: &World,
  kind: GraphKind,
  faults: &[(CallKey, Fault)],
  tokio: bool,
) -> Result<Built, PanicInfo> {
  build_any_npm(w, world, kind, faults, tokio, None)
}

fn build_any_npm(
  w: &AnyWorld,
  world: &World,
  kind: GraphKind,
  faults: &[(CallKey, Fault)],
  tokio: bool,
  npm_fault: Option<(Vec<String>, bool)>,
) -> Result<Built, PanicInfo> {
  let mut loader = ScriptedLoader::new(world);
  for (k, f) in faults {
    loader.faults.insert(k.clone(), f.clone());
  }
  let mut graph = ModuleGraph::new(kind);
  let exec = if tokio { Exec::Tokio } else { Exec::Inline };
  match w {
    AnyWorld::G(gw) => {
      let cfg = BuildCfg {
        kind,
        resolver: gw.map_resolver(),
        ..Default::default()
      };
      catch(|| {
        run_build(&mut graph, &gw.roots, &gw.imports, &loader, &cfg, None, exec, None);
      })?;
    }
    AnyWorld::Raw(roots) => {
      let cfg = BuildCfg { kind, unstable_text: true, unstable_bytes: true, ..Default::default() };
      catch(|| {
        run_build(&mut graph, roots, &[], &loader, &cfg, None, exec, None);
      })?;
    }
    AnyWorld::R(rw) => {
      for (req, ver) in &rw.lock_selected {
        let r = deno_semver::package::PackageReq::from_str(req).unwrap();
        graph.packages.add_nv(
          r.clone(),
          deno_semver::package::PackageNv {
            name: r.name.clone(),
            version: deno_semver::Version::parse_standard(ver).unwrap(),
          },
        );
      }
      let cfg = BuildCfg {
        kind,
        npm: match &npm_fault {
          Some((names, dep)) => Some(ScriptedNpmResolver {
            fail_names: names.clone(),
            dep_graph_fails: *dep,
            ..Default::default()
          }),
          None => (!rw.no_npm_resolver).then(ScriptedNpmResolver::default),
        },
        version_resolver: Some(rw.version_resolver()),
        prefer_cached_jsr: rw.prefer_cached,
        ..Default::default()
      };
      let mut locker = RecLocker::default();
      catch(|| {
        run_build(
          &mut graph,
          &rw.roots,
          &[],
          &loader,
          &cfg,
          Some(&mut locker),
          exec,
          None,
        );
      })?;
    }
  }
  let delivered = loader.faults_delivered.borrow().clone();
  Ok(Built {
    graph,
    log: loader.take_log(),
    delivered,
  })
}

fn registry_meta_faults(spec: &str) -> Vec<(String, Fault)> {
  let m = |name: &str, body: &str| {
    (
      name.to_string(),
      Fault::Module {
        content: body.as_bytes().to_vec(),
        headers: vec![],
        final_spec: None,
      },
    )
  };
  if spec.ends_with("/meta.json") {
    vec![
      m("meta:invalid-json", "{ not json"),
      m("meta:empty-object", "{}"),
      m("meta:empty-versions", "{\"versions\":{}}"),
      m("meta:versions-wrong-type", "{\"versions\":[1,2]}"),
      m("meta:version-entry-wrong-type", "{\"versions\":{\"1.0.0\":5}}"),
      m("meta:bad-version-key", "{\"versions\":{\"not-a-version\":{}}}"),
      m("meta:null", "null"),
    ]
  } else if spec.ends_with("_meta.json") {
    vec![
      m("vmeta:invalid-json", "{{{"),
      m("vmeta:empty-object", "{}"),
      m("vmeta:no-exports", "{\"manifest\":{}}"),
      m("vmeta:exports-number", "{\"exports\":5,\"manifest\":{}}"),
      m("vmeta:exports-array", "{\"exports\":[\"./mod.ts\"],\"manifest\":{}}"),
      m("vmeta:exports-null", "{\"exports\":null,\"manifest\":{}}"),
      m("vmeta:exports-unjoinable", "{\"exports\":{\".\":\"//[\",\"./sub\":\"http://[::1\"},\"manifest\":{}}"),
      m("vmeta:exports-absolute", "{\"exports\":{\".\":\"https://evil.test/x.ts\",\"./sub\":\"../../other/1.0.0/mod.ts\"},\"manifest\":{}}"),
      m("vmeta:exports-empty-string", "{\"exports\":{\".\":\"\",\"./sub\":\"\"},\"manifest\":{}}"),
      m("vmeta:manifest-missing", "{\"exports\":{\".\":\"./mod.ts\",\"./sub\":\"./sub.ts\"}}"),
      m("vmeta:manifest-wrong-checksum", "{\"exports\":{\".\":\"./mod.ts\",\"./sub\":\"./sub.ts\"},\"manifest\":{\"/mod.ts\":{\"size\":1,\"checksum\":\"sha256-00\"},\"/sub.ts\":{\"size\":1,\"checksum\":\"sha256-00\"}}}"),
      m("vmeta:manifest-unsupported-prefix", "{\"exports\":{\".\":\"./mod.ts\",\"./sub\":\"./sub.ts\"},\"manifest\":{\"/mod.ts\":{\"size\":1,\"checksum\":\"md5-00\"},\"/sub.ts\":{\"size\":1,\"checksum\":\"md5-00\"}}}"),
      m("vmeta:module-graph-garbage", "{\"exports\":{\".\":\"./mod.ts\",\"./sub\":\"./sub.ts\"},\"manifest\":{},\"moduleGraph2\":{\"/mod.ts\":{\"dependencies\":[{\"type\":\"static\",\"kind\":\"import\",\"specifier\":\"./nowhere.ts\",\"specifierRange\":[[0,0],[0,5]]}]},\"/sub.ts\":5}}"),
      m("vmeta:module-graph1-garbage", "{\"exports\":{\".\":\"./mod.ts\"},\"manifest\":{},\"moduleGraph1\":{\"/mod.ts\":{\"dependencies\":[{\"leadingComments\":[{\"text\":\"x\",\"range\":[[0,0]]}]}]}}}"),
    ]
  } else {
    vec![]
  }
}

fn generic_faults(spec: &str, world: &World, rng: &mut Rng) -> Vec<(String, Fault)> {
  let u = url(spec);
  let other: String = world
    .remote
    .keys()
    .filter(|k| k.as_str() != spec && !k.ends_with("meta.json"))
    .nth(rng.below(world.remote.len().max(1)) % world.remote.len().max(1))
    .cloned()
    .unwrap_or_else(|| "https://h.test/elsewhere.ts".to_string());
  let sibling = u.join("./fault-target.ts").map(|u| u.to_string()).unwrap_or(other.clone());
  vec![
    ("missing".into(), Fault::Missing),
    ("err".into(), Fault::Err),
    ("checksum-err".into(), Fault::ChecksumErr),
    ("redirect-self".into(), Fault::Redirect(spec.to_string())),
    ("redirect-other".into(), Fault::Redirect(other.clone())),
    ("redirect-nowhere".into(), Fault::Redirect(sibling.clone())),
    (
      "redirect-into-registry".into(),
      Fault::Redirect("https://jsr.io/@s/a/1.0.0/mod.ts".into()),
    ),
    ("external".into(), Fault::External),
    ("external-other".into(), Fault::ExternalOther(other.clone())),
    (
      "module-other-final".into(),
      Fault::Module {
        content: b"export const z = 1;".to_vec(),
        headers: vec![],
        final_spec: Some(other.clone()),
      },
    ),
    (
      // the honest bytes (so a verifying loader accepts them) under another
      // final specifier
      "same-content-other-final".into(),
      Fault::Module {
        content: match world.remote.get(u.as_str()) {
          Some(Resp::Module { content, .. }) => content.clone(),
          _ => b"export const z = 1;".to_vec(),
        },
        headers: vec![],
        final_spec: Some(other.clone()),
      },
    ),
    (
      "same-content-final-elsewhere".into(),
      Fault::Module {
        content: match world.remote.get(u.as_str()) {
          Some(Resp::Module { content, .. }) => content.clone(),
          _ => b"export const z = 1;".to_vec(),
        },
        headers: vec![],
        final_spec: Some(sibling.clone()),
      },
    ),
    (
      "module-final-in-registry".into(),
      Fault::Module {
        content: b"import 'jsr:@s/q@1'; export const z = 1;".to_vec(),
        headers: vec![],
        final_spec: Some("https://jsr.io/@s/zz/1.0.0/mod.ts".into()),
      },
    ),
    (
      "unparsable".into(),
      Fault::Module {
        content: b"this is (( not js".to_vec(),
        headers: vec![],
        final_spec: None,
      },
    ),
    (
      "undecodable-charset".into(),
      Fault::Module {
        content: vec![0xff, 0xfe, 0x00],
        headers: vec![("content-type".into(), "application/typescript; charset=bogus".into())],
        final_spec: None,
      },
    ),
    (
      "invalid-utf8".into(),
      Fault::Module {
        content: vec![0x69, 0x6d, 0xff, 0xfe, 0xc0],
        headers: vec![],
        final_spec: None,
      },
    ),
    (
      "truncated-wasm".into(),
      Fault::Module {
        content: vec![0x00, 0x61, 0x73],
        headers: vec![("content-type".into(), "application/wasm".into())],
        final_spec: None,
      },
    ),
    (
      "imports-unknown".into(),
      Fault::Module {
        content: b"import './a-new-dependency.ts'; import 'bare'; import 'jsr:@s/a@1'; import 'npm:x@1'; import 'node:fs'; import 'data:text/javascript,export default 1';".to_vec(),
        headers: vec![],
        final_spec: None,
      },
    ),
  ]
}

fn settled(graph: &ModuleGraph, s: &ModuleSpecifier) -> bool {
  graph.try_get(s).map(|m| m.is_some()).unwrap_or(true)
    || graph.redirects.contains_key(s)
    || graph.modules().any(|m| m.specifier() == s)
    || graph.module_errors().any(|e| e.specifier() == s)
}

/// ancestors (importers, transitively, incl. through redirects) of `f`
fn upstream_of(graph: &ModuleGraph, f: &str) -> BTreeSet<String> {
  let mut rev: BTreeMap<String, BTreeSet<String>> = BTreeMap::new();
  for m in graph.modules() {
    let from = m.specifier().to_string();
    for d in m.dependencies().values() {
      for r in [&d.maybe_code, &d.maybe_type] {
        if let Some(t) = r.maybe_specifier() {
          rev.entry(t.to_string()).or_default().insert(from.clone());
        }
      }
    }
    if let Some(td) = m.maybe_types_dependency()
      && let Some(t) = td.dependency.maybe_specifier()
    {
      rev.entry(t.to_string()).or_default().insert(from.clone());
    }
  }
  for (a, b) in &graph.redirects {
    rev.entry(b.to_string()).or_default().insert(a.to_string());
  }
  let mut out = BTreeSet::new();
  let mut work = vec![f.to_string()];
  while let Some(x) = work.pop() {
    if !out.insert(x.clone()) {
      continue;
    }
    if let Some(p) = rev.get(&x) {
      work.extend(p.iter().cloned());
    }
  }
  out
}

fn check_faulted(
  acc: &mut Acc,
  base: &Built,
  faulted: &Built,
  plan: &[(CallKey, String)],
  faults: &[(CallKey, Fault)],
  ctx: &Value,
  is_registry: bool,
) {
  let g = &faulted.graph;
  let plan_desc: Vec<String> = plan
    .iter()
    .map(|(k, n)| format!("{}@{}:{}#{}", n, k.cache_setting, k.specifier, k.occurrence))
    .collect();
  let kinds: Vec<&str> = plan.iter().map(|(_, n)| n.as_str()).collect();
  let _ = kinds;
  // signature component: for a single-fault plan its kind; for a combination
  // the kinds of the faults placed on the specifier the symptom is about
  let kinds_at = |spec: Option<&str>| -> String {
    let mut ks: Vec<&str> = plan
      .iter()
      .filter(|(k, _)| plan.len() == 1 || spec.is_none() || Some(k.specifier.as_str()) == spec)
      .map(|(_, n)| n.as_str())
      .collect();
    if ks.is_empty() {
      return "combination".to_string();
    }
    ks.sort();
    ks.dedup();
    ks.join("+")
  };
  let w = |d: Value| json!({"ctx": ctx, "fault_plan": plan_desc, "detail": d});
  // serialisation & unfinished entries
  match serde_json::to_value(g) {
    Err(e) => acc.violation(
      format!("serialize-failed/{}", kinds_at(None)),
      e.to_string(),
      w(json!({})),
    ),
    Ok(v) => {
      if v.to_string().contains("[INTERNAL ERROR]") {
        let pending_spec = v["modules"].as_array().and_then(|a| {
          a.iter()
            .find(|m| m["error"].as_str().is_some_and(|e| e.contains("[INTERNAL ERROR]")))
            .and_then(|m| m["specifier"].as_str().map(|s| s.to_string()))
        });
        acc.violation(
          format!("unfinished-entry/{}", kinds_at(pending_spec.as_deref())),
          "serialised graph reports a pending module load that never completed",
          w(json!({})),
        );
      }
    }
  }
  // a deferred content load of a registry file (embedded module info) that
  // was answered elsewhere - another final specifier, a redirect - must end
  // as an error entry for the requested file
  if is_registry {
    for (k, f) in faults {
      let is_content_load = k.cache_setting == "use"
        && !k.ensure_cached
        && k.specifier.starts_with("https://jsr.io/")
        && !k.specifier.ends_with("meta.json")
        && base.log.iter().any(|e| e.specifier == k.specifier && e.cache_setting == "only");
      let elsewhere = matches!(f, Fault::Module { final_spec: Some(_), .. } | Fault::Redirect(_));
      if is_content_load && faulted.delivered.contains(k) {
        acc.count("faults_delivered_on_deferred_registry_content_loads");
        if elsewhere {
          acc.count("deferred_registry_content_loads_answered_elsewhere");
          let is_err = g.try_get(&url(&k.specifier)).is_err();
          // (a cache-busting restart may have loaded the file again, honestly)
          let served_later = {
            let prefix = format!("module:{}:", url(&k.specifier));
            faulted.log.iter().any(|e| e.answer.starts_with(prefix.as_str()))
          };
          // (or the restarted pass no longer contains the file at all)
          // (an *external* entry under that name comes from another fault of the plan that names the file as
          // the target of an external answer, not from the content load)
          let is_module = matches!(g.try_get(&url(&k.specifier)), Ok(Some(m)) if m.specifier().as_str() == url(&k.specifier).as_str() && !matches!(m, deno_graph::Module::External(_)));
          let _ = is_err;
          if is_module && !served_later {
            acc.violation(
              format!("deferred-content-load-answered-elsewhere-but-no-error-entry/{}", kinds_at(Some(k.specifier.as_str()))),
              format!("{}: the content load was answered under another specifier, the entry is {:?}", k.specifier, g.try_get(&url(&k.specifier)).map(|m| m.map(|m| m.specifier().to_string())).map_err(|e| e.to_string())),
              w(json!({"faulted_log": faulted.log.iter().map(|e| format!("{} {} -> {}", e.cache_setting, e.specifier, e.answer.chars().take(90).collect::<String>())).collect::<Vec<_>>(),
                "text_len": g.get(&url(&k.specifier)).and_then(|m| m.source()).map(|s| s.len())})),
            );
          }
        }
      }
    }
  }
  // a registry module's text is what the loader served for it (a module whose
  // content arrives by a deferred load must not keep its placeholder)
  if is_registry {
    for m in g.modules() {
      let deno_graph::Module::Js(js) = m else { continue };
      if !js.specifier.as_str().starts_with("https://jsr.io/") || js.source.text.contains('\u{FFFD}') {
        continue;
      }
      let prefix = format!("module:{}:", js.specifier);
      let served: Vec<&str> = faulted.log.iter().filter_map(|e| e.answer.strip_prefix(prefix.as_str())).collect();
      if served.is_empty() {
        // a module of the graph for which the loader never supplied content
        // (a placeholder from embedded module info whose content load went
        // elsewhere must end as an error entry)
        acc.violation(
          format!("registry-module-without-served-content/{}", kinds_at(Some(js.specifier.as_str()))),
          format!("{} is a module of the graph but no loader answer carries content for it", js.specifier),
          w(json!({})),
        );
        continue;
      }
      acc.count("registry_module_texts_checked_against_served_bytes");
      let h = sha256_hex(js.source.text.as_bytes());
      if !served.iter().any(|s| *s == h) {
        acc.violation(
          format!("registry-module-text-not-served-by-the-loader/{}", kinds_at(Some(js.specifier.as_str()))),
          format!("{} has a {}-byte text that no answer of the loader for it contains", js.specifier, js.source.text.len()),
          w(json!({})),
        );
      }
    }
  }
  // every dependency the final graph records resolves to an entry (module or
  // error): independent of restarts, applies to every world
  if g.graph_kind() == deno_graph::GraphKind::All {
    for m in g.modules() {
      for (text, dep) in m.dependencies() {
        for r in [&dep.maybe_code, &dep.maybe_type] {
          if let Some(t) = r.maybe_specifier() {
            acc.count("dependencies_checked_settled");
            if !settled(g, t) {
              acc.violation(
                format!("dependency-not-settled/{}/{}", t.scheme(), kinds_at(Some(t.as_str()))),
                format!("{} imports {:?} -> {}, which has no entry in the graph", m.specifier(), text, t),
                w(json!({"graph": graph_json(g)})),
              );
            }
          }
        }
      }
    }
  }
  // every specifier the build asked the loader for is settled (a
  // cache-busting restart discards what the first pass loaded)
  // (module worlds only: a registry build may restart and discard what its
  // first pass loaded; unfinished entries there are caught by the marker check)
  let checked_log: &[LoadEvent] = if is_registry { &[] } else { &faulted.log };
  for e in checked_log {
    if e.specifier.ends_with("meta.json") {
      continue;
    }
    let s = url(&e.specifier);
    if !settled(g, &s) {
      acc.violation(
        format!("requested-specifier-not-settled/{}", kinds_at(Some(e.specifier.as_str()))),
        format!("{} was requested from the loader but has no entry", e.specifier),
        w(json!({"graph": graph_json(g), "log": faulted.log.iter().map(|e| format!("{} {} -> {}", e.cache_setting, e.specifier, e.answer.chars().take(60).collect::<String>())).collect::<Vec<_>>()})),
      );
    }
  }
  // failures carry their referrer
  let roots: BTreeSet<String> = g.roots.iter().map(|r| r.to_string()).collect();
  let root_reachable_by_redirect: BTreeSet<String> = {
    let mut s = roots.clone();
    // the redirect table keeps the first answer per specifier; with a fault on one occurrence the loader may
    // have answered the same specifier with two different redirects, so the hops the loader really answered
    // (from the log) count as well
    let mut edges: Vec<(String, String)> = g.redirects.iter().map(|(a, b)| (a.to_string(), b.to_string())).collect();
    for e in &faulted.log {
      if let Some(t) = e.answer.strip_prefix("redirect:") {
        edges.push((e.specifier.clone(), t.to_string()));
      }
    }
    let mut changed = true;
    while changed {
      changed = false;
      for (a, b) in &edges {
        if s.contains(a.as_str()) && s.insert(b.clone()) {
          changed = true;
        }
      }
    }
    s
  };
  for e in g.module_errors() {
    use deno_graph::ModuleErrorKind as K;
    let has_referrer_field = matches!(
      e.as_kind(),
      K::Load { .. } | K::Missing { .. } | K::UnsupportedMediaType { .. }
    );
    if !has_referrer_field {
      continue;
    }
    let spec = e.specifier().to_string();
    if root_reachable_by_redirect.contains(&spec) {
      continue;
    }
    // decode errors are created without access to the referrer (they come out
    // of the shared text decoder): reported as their own class
    if e.maybe_referrer().is_none() {
      let msg = e.to_string();
      let class = if msg.contains("Unsupported charset") {
        "decode-error"
      } else {
        "other"
      };
      // a specifier imported by nobody (only roots reach it) has no referrer
      let imported = g.modules().any(|m| {
        m.dependencies().values().any(|d| {
          [&d.maybe_code, &d.maybe_type].iter().any(|r| {
            r.maybe_specifier().is_some_and(|t| {
              let mut cur = t.clone();
              for _ in 0..20 {
                if cur.as_str() == spec {
                  return true;
                }
                match g.redirects.get(&cur) {
                  Some(n) => cur = n.clone(),
                  None => break,
                }
              }
              false
            })
          })
        }) || m
          .maybe_types_dependency()
          .and_then(|t| t.dependency.maybe_specifier())
          .is_some_and(|t| t.as_str() == spec)
      });
      if imported {
        acc.violation(
          format!("error-entry-without-referrer/{}", class),
          format!("{}: {}", spec, msg.lines().next().unwrap_or("")),
          w(json!({"graph": graph_json(g), "faulted_log": faulted.log.iter().map(|e| format!("{} {} -> {}", e.cache_setting, e.specifier, e.answer.chars().take(70).collect::<String>())).collect::<Vec<_>>()})),
        );
      }
    }
  }
  // independence: entries that do not depend on any faulted call are as in
  // the fault-free run
  let base_entries = entries_summary(&base.graph);
  let new_entries = entries_summary(g);
  let mut dependent: BTreeSet<String> = BTreeSet::new();
  let mut skip_independence = false;
  let first_call = |spec: &str| base.log.iter().position(|e| e.specifier == spec);
  for (k, _) in plan {
    if k.specifier.ends_with("meta.json") {
      // registry metadata: everything of that package (and whatever selected
      // it) may legitimately change
      skip_independence = true;
    }
    dependent.extend(upstream_of(&base.graph, &k.specifier));
  }
  if base.log.iter().any(|e| e.cache_setting == "reload")
    || faulted.log.iter().any(|e| e.cache_setting == "reload" && e.specifier.ends_with("/meta.json"))
  {
    // a restart re-runs everything with other metadata
    skip_independence = true;
  }
  for (k, f) in faults {
    // a response that names ANOTHER specifier makes that specifier an
    // affected one: always for a module answered under another final
    // specifier (the loader vouches for new content of it); for redirects and
    // external markers only if it had not been loaded before the faulted call
    let faulted_at = base
      .log
      .iter()
      .position(|e| e.specifier == k.specifier && e.cache_setting == k.cache_setting)
      .unwrap_or(0);
    let (target, always) = match f {
      Fault::Module {
        final_spec: Some(o), ..
      } => (Some(o.clone()), true),
      Fault::ExternalOther(o) => (Some(o.clone()), false),
      // a redirect to an already loaded specifier can still re-request it:
      // known redirects are applied one hop at a time, so a target that is
      // itself a redirect source (answered under another final specifier)
      // has no entry of its own and is loaded again, in the new requester's
      // context (attribute, dynamic branch)
      Fault::Redirect(o) => (Some(o.clone()), true),
      _ => (None, false),
    };
    if let Some(o) = target {
      let o = url(&o).to_string();
      let loaded_before = first_call(&o).is_some_and(|i| i < faulted_at);
      if always || !loaded_before {
        dependent.extend(upstream_of(&base.graph, &o));
        // everything behind a redirect chain starting at the named specifier
        // is now first requested in the faulted request's context (root /
        // dynamic leniency for non-JS media types is inherited)
        let mut cur = o.clone();
        let mut hops = 0;
        while let Some(next) = g.redirects.get(&url(&cur)).or_else(|| base.graph.redirects.get(&url(&cur))) {
          dependent.extend(upstream_of(&base.graph, next.as_str()));
          cur = next.to_string();
          hops += 1;
          if hops > 64 {
            break;
          }
        }
      }
    }
  }
  if is_registry && plan.iter().any(|(_, n)| n == "imports-unknown") {
    // may introduce new jsr requirements that change unification
    skip_independence = true;
  }
  let jsr_state = |gr: &ModuleGraph| -> String {
    let mut reds: Vec<String> = gr
      .redirects
      .iter()
      .filter(|(a, _)| a.scheme() == "jsr")
      .map(|(a, b)| format!("{} -> {}", a, b))
      .collect();
    reds.sort();
    format!("{} {:?}", serde_json::to_string(&gr.packages).unwrap_or_default(), reds)
  };
  if is_registry && jsr_state(&base.graph) != jsr_state(g) {
    // which version a requirement resolves to depends on the versions
    // already in the graph (resolve_version prefers them), so a fault that
    // removes or adds a package version legitimately changes other
    // requirement entries
    acc.count("independence_skipped_package_versions_changed");
    skip_independence = true;
  }
  if !skip_independence {
    // reachability in the base graph avoiding dependent entries
    let gv = crate::eval::GView::new(&base.graph);
    let mut reach: BTreeSet<String> = BTreeSet::new();
    let mut work: Vec<ModuleSpecifier> = base.graph.roots.iter().cloned().collect();
    for gi in base.graph.imports.values() {
      for d in gi.dependencies.values() {
        if let Some(s) = d.maybe_type.maybe_specifier() {
          work.push(s.clone());
        }
      }
    }
    while let Some(s) = work.pop() {
      if dependent.contains(s.as_str()) && !roots.contains(s.as_str()) {
        continue;
      }
      if !reach.insert(s.to_string()) {
        continue;
      }
      if dependent.contains(s.as_str()) {
        continue; // a dependent root: do not traverse its (possibly changed) edges
      }
      match gv.entry(&s) {
        crate::eval::Entry::Redirect(t) => work.push(t.clone()),
        crate::eval::Entry::Module(m) => {
          for d in m.dependencies().values() {
            for r in [&d.maybe_code, &d.maybe_type] {
              if let Some(t) = r.maybe_specifier() {
                work.push(t.clone());
              }
            }
          }
          if let Some(td) = m.maybe_types_dependency()
            && let Some(t) = td.dependency.maybe_specifier()
          {
            work.push(t.clone());
          }
        }
        _ => {}
      }
    }
    for (spec, b) in &base_entries {
      if dependent.contains(spec) || !reach.contains(spec) {
        continue;
      }
      acc.count("independent_entries_checked");
      match new_entries.get(spec) {
        None => acc.violation(
          format!("independent-entry-lost/{}", if plan.len() == 1 { kinds_at(None) } else { "combination".into() }),
          format!("{} does not depend on the fault but is gone", spec),
          w(json!({})),
        ),
        Some(n) if n.0 != b.0 => {
          // first-requester context may flip JSON/unknown entries
          acc.violation(
            format!(
              "independent-entry-changed/{}-to-{}/{}",
              b.0.split(':').take(2).collect::<Vec<_>>().join(":"),
              n.0.split(':').take(2).collect::<Vec<_>>().join(":"),
              if plan.len() == 1 { kinds_at(None) } else { "combination".into() }
            ),
            format!("{}: {:?} -> {:?}", spec, b, n),
            w(json!({
              "base_log": base.log.iter().map(|e| format!("{} {} -> {}", e.cache_setting, e.specifier, e.answer.chars().take(70).collect::<String>())).collect::<Vec<_>>(),
              "faulted_log": faulted.log.iter().map(|e| format!("{} {} -> {}", e.cache_setting, e.specifier, e.answer.chars().take(70).collect::<String>())).collect::<Vec<_>>(),
            })),
          );
        }
        _ => {}
      }
    }
  }
}

/// one target imported as an asset by one module and plainly by another (either order), statically known
/// dynamic imports elsewhere, a second asset import of a module that is also imported dynamically
fn asset_world(rng: &mut Rng) -> (AnyWorld, World, Value) {
  let attr = if rng.coin() { "text" } else { "bytes" };
  let target = if rng.coin() { "https://h.test/lib/mod.ts" } else { "https://h.test/latest/mod.ts" };
  let asset_src = format!("import t from \"{}\" with {{ type: \"{}\" }};\nexport const a = t;\n", target, attr);
  let plain_src = format!("import * as m from \"{}\";\nexport const b = m;\n", target);
  let asset_first = rng.coin();
  let mut w = World::new();
  let mut main = String::from("import \"./first.ts\";\nimport \"./second.ts\";\n");
  match rng.below(3) {
    0 => main.push_str("const lazy = await import(\"./lazy.ts\");\n"),
    1 => main.insert_str(0, "const lazy = await import(\"./lazy.ts\");\n"),
    _ => {
      main.push_str("const lazy = await import(\"./lazy.ts\");\nconst lazy2 = await import(\"./lazy2.ts\");\n");
      w.add_text("file:///lazy2.ts", &format!("import d from \"./data.txt\" with {{ type: \"{}\" }};\nexport const l2 = d;\n", attr));
      w.add_text("file:///data.txt", "plain data");
    }
  }
  w.add_text("file:///main.ts", &main);
  w.add_text("file:///first.ts", if asset_first { &asset_src } else { &plain_src });
  w.add_text("file:///second.ts", if asset_first { &plain_src } else { &asset_src });
  w.add_text("file:///lazy.ts", "import \"./lazy_dep.ts\";\nexport const l = 1;\n");
  w.add_text("file:///lazy_dep.ts", "export const ld = 1;\n");
  w.add_text("https://h.test/lib/mod.ts", "import \"./dep.ts\";\nexport const v = 1;\n");
  w.add_text("https://h.test/lib/dep.ts", "export const d = 1;\n");
  w.add("https://h.test/latest/mod.ts", Resp::Redirect("https://h.test/lib/mod.ts".into()));
  let ctx = json!({"asset_world": w.to_json(), "asset_import_first": asset_first});
  (AnyWorld::Raw(vec!["file:///main.ts".to_string()]), w, ctx)
}

fn one_world(i: usize, seed: u64, tier: Tier, acc: &mut Acc, mode: u8) {
  let registry = mode == 1;
  let mut rng = Rng::new(seed).fork(i as u64 ^ match mode { 1 => 0xC03_1, 2 => 0xC03_2, _ => 0xC03_0 });
  let (aw, world, ctx) = if mode == 2 {
    acc.count("asset_worlds");
    asset_world(&mut rng)
  } else if registry {
    let mut rw = gen_reg_world(&mut rng);
    rw.reload_only_versions.clear();
    if rng.chance(1, 3) {
      // version manifests that embed module information: package files are
      // then represented by a placeholder and filled by a deferred content
      // load (another place where faults can strike)
      crate::c13::embed_module_graphs(&mut rw, rng.chance(1, 4));
    }
    let world = rw.to_world();
    let ctx = json!({"registry_world": rw.to_json()});
    (AnyWorld::R(rw), world, ctx)
  } else {
    let gcfg = GenCfg {
      max_modules: rng.range(2, 7),
      max_items: rng.range(1, 4),
      ..Default::default()
    };
    let gw = gen_world(&mut rng, &gcfg);
    let world = gw.to_world();
    let ctx = json!({"world": gw.to_json()});
    (AnyWorld::G(gw), world, ctx)
  };
  let kind = *rng.pick(&[GraphKind::All, GraphKind::All, GraphKind::CodeOnly, GraphKind::TypesOnly]);
  let base = match build_any(&aw, &world, kind, &[], false) {
    Ok(b) => b,
    Err(p) => {
      acc.violation(
        format!("panic/no-fault/{}", p.signature()),
        format!("fault-free build panicked: {}", p.message),
        ctx,
      );
      return;
    }
  };
  {
    let probes = base.log.iter().filter(|e| e.cache_setting == "only" && !e.specifier.ends_with("meta.json")).count();
    if probes > 0 {
      acc.count("worlds_with_deferred_registry_content_loads");
      acc.count_n("registry_file_cache_probes", probes as u64);
    }
  }
  npm_faults(acc, &aw, &world, kind, &ctx);
  // call identities of the fault-free trace
  let mut occ: BTreeMap<(String, &'static str, bool), u32> = BTreeMap::new();
  let mut calls: Vec<CallKey> = vec![];
  for e in &base.log {
    let k = (e.specifier.clone(), e.cache_setting, e.ensure_cached);
    let o = occ.entry(k).or_insert(0);
    calls.push(CallKey {
      specifier: e.specifier.clone(),
      cache_setting: e.cache_setting,
      ensure_cached: e.ensure_cached,
      occurrence: *o,
    });
    *o += 1;
  }
  acc.max("trace_length", calls.len() as u64);
  if i < 2 {
    acc.sample(json!({"trace": base.log.iter().map(|e| format!("{} {}", e.cache_setting, e.specifier)).collect::<Vec<_>>(), "kind": format!("{:?}", kind)}));
  }
  let mut plans: Vec<Vec<(CallKey, Fault, String)>> = vec![];
  for c in &calls {
    let mut fs = generic_faults(&c.specifier, &world, &mut rng);
    fs.extend(registry_meta_faults(&c.specifier));
    for (name, f) in fs {
      plans.push(vec![(c.clone(), f, name)]);
    }
  }
  // pairs / k-subsets
  let singles = plans.clone();
  let n_multi = tier.pick(singles.len() / 8, singles.len());
  for _ in 0..n_multi {
    let k = rng.range(2, 3);
    let mut p = vec![];
    for _ in 0..k {
      let s = rng.pick(&singles)[0].clone();
      if !p.iter().any(|(c, _, _): &(CallKey, Fault, String)| *c == s.0) {
        p.push(s);
      }
    }
    if p.len() >= 2 {
      plans.push(p);
    }
  }
  for plan in plans {
    acc.eval();
    let faults: Vec<(CallKey, Fault)> = plan.iter().map(|(k, f, _)| (k.clone(), f.clone())).collect();
    let names: Vec<(CallKey, String)> = plan.iter().map(|(k, _, n)| (k.clone(), n.clone())).collect();
    let tokio = rng.chance(1, 16);
    let sig_kind = names.iter().map(|(_, n)| n.as_str()).collect::<Vec<_>>().join("+");
    match build_any(&aw, &world, kind, &faults, tokio) {
      Err(p) => {
        let debug_only = p.message.contains("assertion") && cfg!(debug_assertions);
        let _ = &sig_kind;
        acc.violation(
          format!(
            "panic/{}{}",
            p.signature(),
            if debug_only { "/debug-assertion" } else { "" }
          ),
          format!("build panicked: {}", p.message.chars().take(300).collect::<String>()),
          json!({"ctx": ctx, "fault_plan": names.iter().map(|(k, n)| format!("{}@{}:{}#{}", n, k.cache_setting, k.specifier, k.occurrence)).collect::<Vec<_>>(), "kind": format!("{:?}", kind)}),
        );
      }
      Ok(f) => {
        if f.delivered.is_empty() {
          acc.count("plans_not_delivered");
          continue;
        }
        acc.nontrivial(hash64(&(ctx.to_string(), format!("{:?}", names), format!("{:?}", kind))));
        for (_, n) in &names {
          acc.count(&format!("fault:{}", n));
        }
        if tokio {
          acc.count("runs_under_tokio_default_executor");
        }
        check_faulted(acc, &base, &f, &names, &faults, &ctx, registry);
      }
    }
  }
}

/// npm resolution failures (per requirement / for the dependency graph)
fn npm_faults(acc: &mut Acc, aw: &AnyWorld, world: &World, kind: GraphKind, ctx: &Value) {
  let AnyWorld::R(_) = aw else { return };
  for (names, dep_fails, label) in [
    (vec!["chalk".to_string()], false, "npm:requirement-fails"),
    (vec![], true, "npm:dep-graph-fails"),
  ] {
    acc.eval();
    let b = match build_any_npm(aw, world, kind, &[], false, Some((names.clone(), dep_fails))) {
      Ok(b) => b,
      Err(p) => {
        acc.violation(
          format!("panic/{}", p.signature()),
          format!("build panicked under {}: {}", label, p.message),
          ctx.clone(),
        );
        continue;
      }
    };
    let g = &b.graph;
    // npm specifiers the graph's modules import, with the dynamic flag
    let mut npm_edges: Vec<(String, bool, String)> = vec![];
    for m in g.modules() {
      for d in m.dependencies().values() {
        if let Some(t) = d.maybe_code.maybe_specifier()
          && t.scheme() == "npm"
        {
          npm_edges.push((t.to_string(), d.is_dynamic, m.specifier().to_string()));
        }
      }
    }
    if npm_edges.is_empty() {
      continue;
    }
    acc.count(&format!("fault:{}", label));
    acc.nontrivial(hash64(&(ctx.to_string(), label)));
    let w = |d: Value| json!({"ctx": ctx, "npm_fault": label, "detail": d});
    if !dep_fails {
      for (spec, _, _) in &npm_edges {
        match g.try_get(&url(spec)) {
          Err(e) => {
            if e.maybe_referrer().is_none() {
              acc.violation(
                "npm-failure/error-without-referrer",
                format!("{}: {}", spec, e),
                w(json!({})),
              );
            }
          }
          Ok(m) => acc.violation(
            "npm-failure/requirement-failure-has-no-error-entry",
            format!("{} resolved to {:?} although the npm resolver failed it", spec, m.map(|m| m.specifier().to_string())),
            w(json!({})),
          ),
        }
      }
    } else {
      // the dependency-graph failure must be observable: for statically
      // imported npm packages through npm_dep_graph_result, for dynamically
      // imported ones (resolved one at a time) as an error entry
      // (whether a specifier is resolved with the static batch or one at a
      // time depends on the branch it was reached in, so either is accepted)
      let mut specs: Vec<&str> = npm_edges.iter().map(|(s, _, _)| s.as_str()).collect();
      specs.sort();
      specs.dedup();
      for spec in specs {
        acc.count("npm_specifiers_checked_under_dep_graph_failure");
        if g.npm_dep_graph_result.is_ok() && g.try_get(&url(spec)).is_ok() {
          acc.violation(
            "npm-failure/dep-graph-failure-lost",
            format!(
              "{}: dependency graph resolution failed but neither npm_dep_graph_result nor an error entry says so",
              spec
            ),
            w(json!({"edges": npm_edges})),
          );
        }
      }
    }
  }
}

pub fn run(tier: Tier, seed: u64) -> i32 {
  let mut rep = Report::new("C03", tier, seed);
  rep.level = "fault_enumeration";
  rep.rule = "phase A: fault-free real build of a generated world (module worlds from the C01 generator; registry worlds from the C07 generator with lockfile/locker) records the load trace. \
    phase B: for EVERY call of the trace (by identity: specifier, cache setting, load|ensure_cached, occurrence) and every fault kind (16 generic response kinds: missing, error, checksum error, redirects to self/other/nowhere/into the registry, external, \
    external for another specifier, module with another final specifier / a final specifier inside the registry, unparsable, undecodable charset, invalid UTF-8, truncated wasm, new imports; \
    plus 7 package-metadata and 14 version-manifest corruptions incl. exports of every JSON type, unjoinable/absolute/empty export paths, manifest missing/wrong/unsupported checksums, garbage embedded module graphs) one real build; \
    plus random 2-3 fault combinations. Checked: no panic (catch_unwind), serialisation ok and no pending marker, every specifier asked of the loader settled, error entries of imported specifiers carry a referrer, \
    entries that neither depend on a faulted call nor are only reachable through one are unchanged. ~1/16 of runs use the crate's default executor inside tokio. \
    non-trivial = at least one fault was delivered; distinct by (world, plan, kind)"
    .into();
  rep.assumptions = vec![
    "step budget: the inline executor with immediately-ready loader futures never returns Pending; a build that does not return is caught by the 5M-poll budget of block_on (reported as a harness panic -> inconclusive) and by the outer watchdog".into(),
    "allocation-failure aborts and stack overflows would abort the process: the driver maps a crash to a failing (not VIOLATION) run unless the log shows the target's frames".into(),
  ];
  rep.min_nontrivial = tier.pick(5000, 200_000);
  for f in ["missing", "err", "checksum-err", "redirect-self", "external", "unparsable", "undecodable-charset", "vmeta:exports-unjoinable", "meta:invalid-json"] {
    rep.floor(&format!("fault:{}", f), 50);
  }
  let n_g = tier.pick(720, 18000);
  let n_r = tier.pick(360, 9000);
  let mut acc = par_run(n_g, |i, acc| one_world(i, seed, tier, acc, 0));
  let acc2 = par_run(n_r, |i, acc| one_world(i, seed, tier, acc, 1));
  let acc3 = par_run(tier.pick(48, 960), |i, acc| one_world(i, seed, tier, acc, 2));
  acc.merge(acc3);
  acc.merge(acc2);
  rep.finish(acc)
}
