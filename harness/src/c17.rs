// C17 — pruning types from a full graph gives the code-only graph.
// C18 — a graph segment is self-contained and equals a direct build of its roots.
use crate::c01::obs_error_class;
use crate::c01::obs_module_class;
use crate::c01::obs_res;
use crate::c15::add_fast_check;
use crate::c15::build_gworld;
use crate::common::*;
use crate::eval::*;
use crate::r#gen::*;
use crate::world::*;
use deno_graph::GraphKind;
use deno_graph::Module;
use deno_graph::ModuleGraph;
use deno_graph::ModuleSpecifier;
use serde_json::Value;
use serde_json::json;
use std::collections::BTreeMap;
use std::collections::BTreeSet;

/// specifier -> (class, message without range)
pub fn entries_summary(g: &ModuleGraph) -> BTreeMap<String, (String, String)> {
  let mut m = BTreeMap::new();
  for md in g.modules() {
    m.insert(
      md.specifier().to_string(),
      (obs_module_class(md).to_string(), format!("{:?}", md.media_type())),
    );
  }
  for e in g.module_errors() {
    m.insert(
      e.specifier().to_string(),
      (obs_error_class(e.as_kind()), e.to_string()),
    );
  }
  m
}

/// (module, text) -> (code resolution, is_dynamic) for every dependency that
/// has a code resolution
pub fn code_edges(g: &ModuleGraph) -> BTreeMap<(String, String), (MRes, bool)> {
  let mut m = BTreeMap::new();
  for md in g.modules() {
    for (text, d) in md.dependencies() {
      let c = obs_res(&d.maybe_code);
      if c != MRes::None {
        m.insert((md.specifier().to_string(), text.clone()), (c, d.is_dynamic));
      }
    }
  }
  m
}

fn redirects_of(g: &ModuleGraph) -> BTreeMap<String, String> {
  g.redirects
    .iter()
    .map(|(a, b)| (a.to_string(), b.to_string()))
    .collect()
}

fn c17_one(i: usize, seed: u64, acc: &mut Acc) {
  let mut rng = Rng::new(seed).fork(i as u64 ^ 0xC17);
  let gcfg = GenCfg {
    max_modules: rng.range(2, 10),
    max_items: rng.range(1, 6),
    ..Default::default()
  };
  let gw = gen_world(&mut rng, &gcfg);
  // C17 quantifies over inputs only: default build options
  let skip_dyn = false;
  let is_dynamic = false;
  let cfg_all = BuildCfg {
    kind: GraphKind::All,
    skip_dynamic_deps: skip_dyn,
    is_dynamic,
    resolver: gw.map_resolver(),
    ..Default::default()
  };
  let cfg_code = BuildCfg {
    kind: GraphKind::CodeOnly,
    ..cfg_all.clone()
  };
  let ctx = json!({"world": gw.to_json(), "build": cfg_all.to_json()});
  acc.eval();
  let mut gw_code = gw.clone();
  gw_code.imports.clear();
  let (mut a, b) = match (build_gworld(&gw, &cfg_all), build_gworld(&gw_code, &cfg_code)) {
    (Ok(a), Ok(b)) => (a, b),
    (Err(p), _) | (_, Err(p)) => {
      acc.violation(
        format!("panic/{}", p.signature()),
        format!("build panicked: {}", p.message),
        ctx,
      );
      return;
    }
  };
  let before = entries_summary(&a);
  let with_fc = rng.chance(1, 4) && {
    let base = if gw.roots[0].starts_with("file") { "file:///" } else { "https://h.test/" };
    add_fast_check(&mut a, base)
  };
  if with_fc {
    acc.count("pruned_after_fast_check");
  }
  if let Err(p) = catch(|| a.prune_types()) {
    acc.violation(
      format!("panic/{}", p.signature()),
      format!("prune_types panicked: {}", p.message),
      ctx,
    );
    return;
  }
  let ea = entries_summary(&a);
  let eb = entries_summary(&b);
  let type_only_entries = before.len() - ea.len().min(before.len());
  if type_only_entries > 0 {
    acc.nontrivial(hash64(&(&gw, skip_dyn, is_dynamic)));
    acc.count("worlds_with_type_only_entries");
  }
  if before.iter().any(|(k, v)| v.0.starts_with("err") && !ea.contains_key(k)) {
    acc.count("worlds_with_type_only_failures");
  }
  if i < 3 {
    acc.sample(json!({"world": gw.to_json(), "entries_full": before.keys().collect::<Vec<_>>(),
      "entries_pruned": ea.keys().collect::<Vec<_>>()}));
  }
  let w = |extra: Value| json!({"ctx": ctx, "detail": extra});
  if a.graph_kind() != GraphKind::CodeOnly {
    acc.violation("prune/kind-not-code-only", "graph_kind() is not CodeOnly after prune", w(json!({})));
  }
  if ea != eb {
    let only_a: Vec<_> = ea.keys().filter(|k| !eb.contains_key(*k)).collect();
    let only_b: Vec<_> = eb.keys().filter(|k| !ea.contains_key(*k)).collect();
    let differ: Vec<_> = ea
      .iter()
      .filter(|(k, v)| eb.get(*k).is_some_and(|x| x != *v))
      .map(|(k, v)| format!("{}: pruned {:?} vs code-only {:?}", k, v, eb[k]))
      .collect();
    let dir = if !differ.is_empty() {
      "class-or-error-differs"
    } else if !only_a.is_empty() {
      "extra-in-pruned"
    } else {
      "missing-in-pruned"
    };
    acc.violation(
      format!("prune/entries/{}", dir),
      format!("only pruned {:?}; only code-only {:?}; differ {:?}", only_a, only_b, differ),
      w(json!({"pruned": ea, "code_only": eb})),
    );
  }
  let (ra, rb) = (redirects_of(&a), redirects_of(&b));
  if ra != rb {
    let dir = if ra.len() > rb.len() { "extra-in-pruned" } else { "missing-in-pruned" };
    acc.violation(
      format!("prune/redirects/{}", dir),
      format!("pruned {:?} vs code-only {:?}", ra, rb),
      w(json!({})),
    );
  }
  let (ca, cb) = (code_edges(&a), code_edges(&b));
  if ca != cb {
    let mut what = "edge-set";
    for (k, v) in &ca {
      if let Some(x) = cb.get(k) {
        if x.0 != v.0 {
          what = "target";
        } else if x.1 != v.1 {
          what = "is_dynamic";
        }
      }
    }
    acc.violation(
      format!("prune/code-edges/{}", what),
      format!(
        "pruned-only {:?}; code-only-only {:?}",
        ca.iter().filter(|(k, v)| cb.get(*k) != Some(*v)).collect::<Vec<_>>(),
        cb.iter().filter(|(k, v)| ca.get(*k) != Some(*v)).collect::<Vec<_>>()
      ),
      w(json!({})),
    );
  }
  if a.valid().is_ok() != b.valid().is_ok() {
    acc.violation(
      "prune/valid-verdict",
      format!("valid(): pruned {:?} vs code-only {:?}", a.valid().is_ok(), b.valid().is_ok()),
      w(json!({})),
    );
  }
  // leftovers
  if !a.imports.is_empty() {
    acc.violation("prune/leftover/imports", "configured imports remain", w(json!({})));
  }
  for m in a.modules() {
    if m.maybe_types_dependency().is_some() {
      acc.violation("prune/leftover/types-dependency", format!("{}", m.specifier()), w(json!({})));
    }
    for (t, d) in m.dependencies() {
      if !d.maybe_type.is_none() {
        acc.violation(
          "prune/leftover/type-resolution",
          format!("{} {:?}", m.specifier(), t),
          w(json!({})),
        );
      }
    }
    if let Module::Js(js) = m
      && js.fast_check.is_some()
    {
      acc.violation("prune/leftover/fast-check", format!("{}", m.specifier()), w(json!({})));
    }
  }
}

pub fn run_c17(tier: Tier, seed: u64) -> i32 {
  let mut rep = Report::new("C17", tier, seed);
  rep.rule = "case = generated world (C01 generator: type-only, code-only and doubly reachable modules, type-only failures, redirects, resolver) \
    built twice by the real builder: kind All then prune_types() (sometimes after a workspace fast-check pass) vs kind CodeOnly; compared: entries with class and error text, \
    redirects, code edges with dynamic flags, valid() verdict, no leftovers (type resolutions, types dependencies, imports, fast-check data), graph_kind(). \
    non-trivial = the full graph has at least one entry that pruning removes; distinct by (world, options)"
    .into();
  rep.assumptions =
    vec!["error entries are compared by class and message, not by referrer (the first requester may be a type edge in the full build)".into()];
  rep.min_nontrivial = tier.pick(500, 20_000);
  rep.floor("worlds_with_type_only_failures", 50);
  rep.floor("pruned_after_fast_check", 20);
  let n = tier.pick(32000, 12000000);
  let acc = par_run(n, |i, acc| c17_one(i, seed, acc));
  rep.finish(acc)
}

// ------------------------------------------------------------------ C18

fn settle_desc(v: &GView, s: &ModuleSpecifier) -> String {
  let (fin, e) = v.settle(s);
  match e {
    Entry::Module(m) => format!("module {} {}", fin, obs_module_class(m)),
    Entry::Err(e) => format!("error {} {}", fin, e),
    Entry::Redirect(_) => format!("redirect? {}", fin),
    Entry::Nothing => "nothing".to_string(),
  }
}

fn c18_one(i: usize, seed: u64, acc: &mut Acc) {
  let mut rng = Rng::new(seed).fork(i as u64 ^ 0xC18);
  let gcfg = GenCfg {
    max_modules: rng.range(3, 10),
    max_items: rng.range(1, 5),
    ..Default::default()
  };
  let mut gw = gen_world(&mut rng, &gcfg);
  let kind = *rng.pick(&[GraphKind::All, GraphKind::CodeOnly, GraphKind::TypesOnly]);
  if kind == GraphKind::CodeOnly {
    // configured *type* imports in a graph kind without types: the builder
    // loads them, no walk visits them; out of scope (DESIGN, C18)
    gw.imports.clear();
  }
  let cfg = BuildCfg {
    kind,
    resolver: gw.map_resolver(),
    ..Default::default()
  };
  let ctx = json!({"world": gw.to_json(), "build": cfg.to_json()});
  let mut g = match build_gworld(&gw, &cfg) {
    Ok(g) => g,
    Err(p) => {
      acc.violation(format!("panic/{}", p.signature()), p.message.clone(), ctx);
      return;
    }
  };
  let with_fc = rng.chance(1, 4) && {
    let base = if gw.roots[0].starts_with("file") { "file:///" } else { "https://h.test/" };
    add_fast_check(&mut g, base)
  };
  if with_fc {
    acc.count("graphs_with_fast_check_modules");
  }
  let mut module_specs: Vec<ModuleSpecifier> =
    g.modules().map(|m| m.specifier().clone()).collect();
  if module_specs.is_empty() {
    return;
  }
  // a segment root may also be named by a redirecting specifier (the usual
  // shape of a jsr: / unversioned https root)
  let redirecting: Vec<ModuleSpecifier> = g
    .redirects
    .keys()
    .filter(|k| g.try_get(k).is_ok_and(|m| m.is_some()))
    .cloned()
    .collect();
  if !redirecting.is_empty() {
    acc.count("graphs_with_redirecting_root_candidates");
  }
  module_specs.extend(redirecting);
  let n_segments = 4;
  for _ in 0..n_segments {
    let mut roots = module_specs.clone();
    rng.shuffle(&mut roots);
    roots.truncate(rng.range(1, 3.min(roots.len())));
    acc.eval();
    let seg = match catch(|| g.segment(&roots)) {
      Ok(s) => s,
      Err(p) => {
        acc.violation(format!("panic/{}", p.signature()), p.message.clone(), ctx.clone());
        continue;
      }
    };
    let w = |extra: Value| {
      json!({"ctx": ctx, "segment_roots": roots.iter().map(|r| r.as_str()).collect::<Vec<_>>(), "detail": extra})
    };
    let all_roots = roots.iter().all(|r| g.roots.contains(r));
    let vg = GView::new(&g);
    let vs = GView::new(&seg);
    let seg_entries = entries_summary(&seg);
    if seg_entries.len() < entries_summary(&g).len() {
      acc.nontrivial(hash64(&(&gw, format!("{:?}", kind), roots.iter().map(|r| r.as_str()).collect::<Vec<_>>())));
      acc.count("segments_smaller_than_graph");
    }
    if all_roots {
      acc.count("segments_of_original_roots");
    }
    // self-containment: every dependency of every contained module resolves
    // exactly as it did in the original
    for m in seg.modules() {
      for (text, d) in m.dependencies() {
        for r in [&d.maybe_code, &d.maybe_type] {
          if let Some(t) = r.maybe_specifier() {
            if d.is_dynamic && false {
              continue;
            }
            let in_g = settle_desc(&vg, t);
            let in_s = settle_desc(&vs, t);
            if in_g != in_s {
              acc.violation(
                format!(
                  "segment/dependency-resolves-differently/{:?}/fc={}",
                  kind, with_fc
                ),
                format!(
                  "{} {:?} -> {}: original {:?}, segment {:?}",
                  m.specifier(), text, t, in_g, in_s
                ),
                w(json!({})),
              );
            }
          }
        }
        for prefer in [false, true] {
          let a = g
            .resolve_dependency(text, m.specifier(), prefer)
            .map(|s| s.to_string());
          let b = seg
            .resolve_dependency(text, m.specifier(), prefer)
            .map(|s| s.to_string());
          if a != b {
            acc.violation(
              format!("segment/resolve_dependency-differs/{:?}/fc={}", kind, with_fc),
              format!(
                "resolve_dependency({:?}, {}, {}) original {:?} segment {:?}",
                text, m.specifier(), prefer, a, b
              ),
              w(json!({})),
            );
          }
        }
      }
      if let Some(td) = m.maybe_types_dependency()
        && let Some(t) = td.dependency.maybe_specifier()
        && kind.include_types()
      {
        let (in_g, in_s) = (settle_desc(&vg, t), settle_desc(&vs, t));
        if in_g != in_s {
          acc.violation(
            format!("segment/types-dependency-resolves-differently/{:?}", kind),
            format!("{} -> {}: {:?} vs {:?}", m.specifier(), t, in_g, in_s),
            w(json!({})),
          );
        }
      }
    }
    // validation & lookups agree from those roots
    for follow_dynamic in [false, true] {
      let o = EvalOpts {
        kind,
        follow_dynamic,
        check_js: CheckJs::True,
        prefer_fast_check: false,
      };
      let wo = deno_graph::WalkOptions {
        check_js: deno_graph::CheckJsOption::True,
        follow_dynamic,
        kind,
        prefer_fast_check_graph: false,
      };
      let va = g.walk(roots.iter(), wo.clone()).validate().map_err(|e| e.to_string_with_range());
      let vb = seg.walk(roots.iter(), wo).validate().map_err(|e| e.to_string_with_range());
      let _ = &o;
      if va.is_ok() != vb.is_ok() {
        acc.violation(
          format!("segment/validate-differs/{:?}/dyn={}", kind, follow_dynamic),
          format!("original {:?} segment {:?}", va, vb),
          w(json!({})),
        );
      }
    }
    if roots.iter().any(|r| g.redirects.contains_key(r)) {
      acc.count("segments_with_a_redirecting_root");
    }
    // (when every requested root is a root of the original, segment() is a
    // plain clone - a documented superset)
    if !all_roots {
      let want: BTreeSet<String> = roots.iter().map(|r| r.to_string()).collect();
      let got: BTreeSet<String> = seg.roots.iter().map(|r| r.to_string()).collect();
      if want != got {
        acc.violation("segment/roots-differ-from-requested", format!("requested {:?}, segment has {:?}", want, got), w(json!({})));
      }
    }
    for r in &roots {
      for (name, a, b) in [
        ("resolve", g.resolve(r).to_string(), seg.resolve(r).to_string()),
        ("contains", g.contains(r).to_string(), seg.contains(r).to_string()),
      ] {
        if a != b {
          acc.violation(format!("segment/{}-root-differs", name), format!("{}: original {} segment {}", r, a, b), w(json!({})));
        }
      }
      let a = g.try_get(r).map(|m| m.map(|m| m.specifier().to_string())).map_err(|e| e.to_string());
      let b = seg.try_get(r).map(|m| m.map(|m| m.specifier().to_string())).map_err(|e| e.to_string());
      if a != b {
        acc.violation("segment/try_get-root-differs", format!("{:?} vs {:?}", a, b), w(json!({})));
      }
    }
    // equality with a direct build for roots that were not roots
    if !all_roots && !with_fc {
      let mut gw2 = gw.clone();
      gw2.roots = roots.iter().map(|r| r.to_string()).collect();
      if let Ok(direct) = build_gworld(&gw2, &cfg) {
        acc.count("segments_compared_with_direct_build");
        let contained = |x: &ModuleGraph| -> BTreeSet<String> {
          let mut s: BTreeSet<String> = entries_summary(x).into_keys().collect();
          s.extend(x.redirects.keys().map(|k| k.to_string()));
          s
        };
        let (cs, cd) = (contained(&seg), contained(&direct));
        if cs != cd {
          let only_seg: Vec<_> = cs.difference(&cd).collect();
          let only_dir: Vec<_> = cd.difference(&cs).collect();
          let dir = match (only_seg.is_empty(), only_dir.is_empty()) {
            (false, true) => "segment-has-extra",
            (true, false) => "segment-lacks",
            _ => "both",
          };
          acc.violation(
            format!("segment/differs-from-direct-build/{}/{:?}", dir, kind),
            format!("only in segment {:?}; only in direct build {:?}", only_seg, only_dir),
            w(json!({})),
          );
        }
      }
    }
    if i < 2 {
      acc.sample(json!({"roots": roots.iter().map(|r| r.as_str()).collect::<Vec<_>>(),
        "segment_entries": seg_entries.keys().collect::<Vec<_>>(), "world": gw.to_json()}));
    }
  }
}

pub fn run_c18(tier: Tier, seed: u64) -> i32 {
  let mut rep = Report::new("C18", tier, seed);
  rep.rule = "case = (graph from a generated world under a random kind, sometimes with fast-check modules; 1-3 segment roots among its modules). \
    In the real segment() result every dependency and types dependency of every contained module must settle (entries first, then redirects) to the same module-or-error as in the original, \
    resolve_dependency (both preferences), try_get and walk().validate() (both follow_dynamic values) must agree; for roots that were not original roots the set of contained specifiers \
    (entries and redirect sources) must equal that of a direct real build of those roots. non-trivial = segment smaller than the graph; distinct by (world, kind, roots)"
    .into();
  rep.assumptions = vec!["direct-build comparison uses the same configured imports, kind and options".into()];
  rep.min_nontrivial = tier.pick(1000, 30_000);
  rep.floor("segments_compared_with_direct_build", 500);
  rep.floor("graphs_with_fast_check_modules", 20);
  let n = tier.pick(20000, 6400000);
  let acc = par_run(n, |i, acc| c18_one(i, seed, acc));
  rep.finish(acc)
}
