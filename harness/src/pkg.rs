// E4: package generator for the fast-check / symbol properties (C09-C12, C16).
//
// A package is a set of files with declarations of many kinds, each exported
// or private, and typed reference edges between declarations. The generator
// records the intended export names of every file and which declarations are
// reachable from the public API, and renders TypeScript in a *clean* mode
// (every public declaration explicitly typed or trivially inferable) or a
// *dirty* mode (one chosen public declaration made non-inferable).
#![allow(dead_code)]

use crate::common::*;
use crate::world::*;
use serde_json::Value;
use serde_json::json;
use std::collections::BTreeMap;
use std::collections::BTreeSet;

#[derive(Clone, Copy, Debug, PartialEq, Eq, Hash, PartialOrd, Ord)]
pub enum DK {
  Function,
  OverloadedFunction,
  Class,
  AbstractClass,
  Interface,
  TypeAlias,
  Enum,
  ConstEnum,
  TypedConst,
  LiteralConst,
  ArrowConst,
  FunctionExprConst,
  Namespace,
  DeclareFunction,
  /// untyped constant whose initialiser is a leavable composite (array /
  /// object / template / conditional of literals and identifiers)
  CompositeConst,
}

impl DK {
  pub fn is_type_namespace(&self) -> bool {
    matches!(
      self,
      DK::Class | DK::AbstractClass | DK::Interface | DK::TypeAlias | DK::Enum | DK::ConstEnum
    )
  }
  pub fn is_value(&self) -> bool {
    !matches!(self, DK::Interface | DK::TypeAlias)
  }
  pub fn keyword(&self) -> &'static str {
    match self {
      DK::Function | DK::OverloadedFunction | DK::DeclareFunction => "function",
      DK::Class | DK::AbstractClass => "class",
      DK::Interface => "interface",
      DK::TypeAlias => "type",
      DK::Enum | DK::ConstEnum => "enum",
      DK::TypedConst | DK::LiteralConst | DK::ArrowConst | DK::FunctionExprConst | DK::CompositeConst => "const",
      DK::Namespace => "namespace",
    }
  }
}

#[derive(Clone, Copy, Debug, PartialEq, Eq, Hash)]
pub enum Dirty {
  MissingReturnType,
  UntypedConstCall,
  UntypedParam,
  DestructuredParam,
  UntypedClassProp,
  MissingMethodReturn,
  /// untyped parameter in a body-less signature
  OverloadUntypedParam,
  AbstractMethodUntypedParam,
  MethodOverloadUntypedParam,
  UntypedRestParam,
  /// non-leavable expression nested inside an otherwise leavable initialiser
  CallInArray,
  CallInObject,
  CallInTemplateFirstSlot,
  CallInConditional,
  NewInArray,
  /// class members: auto-accessor / getter / setter / constructor parameter / parameter property / static
  /// property that need inference, and a super class that is not an entity name
  UntypedAutoAccessor,
  GetterMissingReturn,
  SetterUntypedParam,
  CtorUntypedParam,
  ParamPropertyNeedsInference,
  UntypedStaticProp,
  SuperClassExpr,
  /// parameter default that is not leavable and has no annotation
  DefaultParamNeedsInference,
  /// no return type; an early bare `return;` precedes `return <non-inferable value>;`
  EarlyBareReturn,
  MethodEarlyBareReturn,
  /// the constant is bound by a destructuring pattern / declared with `using`
  DestructuredConst,
  UsingConst,
  /// a call in a computed key of an otherwise leavable object literal
  CallInComputedKey,
  /// concise arrow with a leavable but not inferable body, no return type, and a parameter default with logic
  ConciseArrowDefaultParam,
}

#[derive(Clone, Debug, PartialEq, Eq, Hash)]
pub struct Decl {
  pub name: String,
  pub kind: DK,
  pub exported: bool,
  pub default_export: bool,
  /// (file, decl) referenced from the public signature
  pub sig_refs: Vec<(usize, usize)>,
  /// referenced only from implementation code (bodies, private members)
  pub body_refs: Vec<(usize, usize)>,
  /// files whose whole namespace object the signature names (`typeof ns`)
  pub ns_refs: Vec<usize>,
  /// changes implementation text only (C12 body edits)
  pub salt: u32,
  pub dirty: Option<Dirty>,
  /// small variation selector for rendering
  pub variant: u32,
}

#[derive(Clone, Debug, PartialEq, Eq, Hash)]
pub enum ReExport {
  /// export { a as b } from "./f.ts"
  Named { from: usize, name: String, alias: Option<String> },
  /// export * from "./f.ts"
  Star { from: usize },
  /// export * as ns from "./f.ts"
  StarAs { from: usize, ns: String },
}

#[derive(Clone, Debug, PartialEq, Eq, Hash)]
pub struct PFile {
  pub path: String,
  pub decls: Vec<Decl>,
  pub reexports: Vec<ReExport>,
  /// how other files' declarations are imported: file index -> style
  /// 0 named, 1 namespace import, 2 import type, 3 inline import("…") types
  pub import_style: BTreeMap<usize, u8>,
  /// import names through a file that star re-exports them, when one exists
  pub via_reexport: bool,
}

#[derive(Clone, Debug, PartialEq, Eq, Hash)]
pub struct Pkg {
  pub name: String,
  pub version: String,
  pub files: Vec<PFile>,
  /// export key -> file index
  pub exports: Vec<(String, usize)>,
  /// raw statements appended to a file (cross-package links of C12 worlds)
  pub extra: BTreeMap<usize, Vec<String>>,
}

pub fn file_url(p: &Pkg, f: usize) -> String {
  format!("https://jsr.io/{}/{}{}", p.name, p.version, p.files[f].path)
}

// ------------------------------------------------------------ generation

pub fn gen_pkg(rng: &mut Rng, name: &str, n_files: usize, dirty: bool) -> Pkg {
  let kinds = [
    DK::Function,
    DK::Function,
    DK::OverloadedFunction,
    DK::Class,
    DK::Class,
    DK::AbstractClass,
    DK::Interface,
    DK::Interface,
    DK::TypeAlias,
    DK::TypeAlias,
    DK::Enum,
    DK::ConstEnum,
    DK::TypedConst,
    DK::LiteralConst,
    DK::ArrowConst,
    DK::FunctionExprConst,
    DK::Namespace,
    DK::DeclareFunction,
    DK::CompositeConst,
  ];
  // declaration names are unique across the packages of one world
  let tag = if name == "@s/pkg" { String::new() } else { name.chars().last().map(|c| c.to_string()).unwrap_or_default() };
  let mut files: Vec<PFile> = vec![];
  let mut counter = 0;
  for fi in 0..n_files {
    let path = match fi {
      0 => "/mod.ts".to_string(),
      1 => "/types.ts".to_string(),
      2 => "/lib/util.ts".to_string(),
      // dot-prefixed directory and file names
      3 => "/.internal/extra3.ts".to_string(),
      _ => format!("/lib/.hidden{}.ts", fi),
    };
    let n_decls = rng.range(2, 7);
    let mut decls = vec![];
    for _ in 0..n_decls {
      counter += 1;
      let kind = *rng.pick(&kinds);
      let exported = rng.chance(3, 5);
      decls.push(Decl {
        name: format!(
          "{}{}{}",
          match kind {
            DK::Function | DK::OverloadedFunction | DK::DeclareFunction => "fn",
            DK::Class | DK::AbstractClass => "Cls",
            DK::Interface => "Ifc",
            DK::TypeAlias => "Ty",
            DK::Enum | DK::ConstEnum => "En",
            DK::TypedConst | DK::LiteralConst | DK::CompositeConst => "val",
            DK::ArrowConst | DK::FunctionExprConst => "fun",
            DK::Namespace => "Ns",
          },
          counter,
          tag
        ),
        kind,
        exported,
        default_export: false,
        sig_refs: vec![],
        body_refs: vec![],
        ns_refs: vec![],
        salt: 0,
        dirty: None,
        variant: rng.next() as u32,
      });
    }
    files.push(PFile {
      path,
      decls,
      reexports: vec![],
      import_style: BTreeMap::new(),
      via_reexport: rng.coin(),
    });
  }
  // at most one default export per file
  for f in files.iter_mut() {
    if rng.chance(1, 3) {
      let cands: Vec<usize> = f
        .decls
        .iter()
        .enumerate()
        .filter(|(_, d)| matches!(d.kind, DK::Class | DK::Function | DK::TypedConst | DK::Interface))
        .map(|(i, _)| i)
        .collect();
      if !cands.is_empty() {
        let i = *rng.pick(&cands);
        f.decls[i].default_export = true;
        f.decls[i].exported = false; // rendered as `export default`
      }
    }
  }
  // reference edges: to keep file imports acyclic in value space, a file may
  // reference declarations of files with a higher index (and its own)
  let n = files.len();
  for fi in 0..n {
    for di in 0..files[fi].decls.len() {
      let n_refs = rng.below(4);
      for _ in 0..n_refs {
        let tf = if rng.chance(1, 2) || fi + 1 >= n { fi } else { rng.range(fi + 1, n - 1) };
        if files[tf].decls.is_empty() {
          continue;
        }
        let td = rng.below(files[tf].decls.len());
        if tf == fi && td == di {
          continue;
        }
        // a cross-file reference needs an importable target: exported by
        // name, or the default export (imported as `import D from`)
        if tf != fi && !(files[tf].decls[td].exported || files[tf].decls[td].default_export) {
          continue;
        }
        // a composite constant only references values
        if files[fi].decls[di].kind == DK::CompositeConst
          && !matches!(
            files[tf].decls[td].kind,
            DK::Function | DK::TypedConst | DK::LiteralConst | DK::ArrowConst | DK::FunctionExprConst | DK::Enum | DK::Class
          )
        {
          continue;
        }
        // literal consts and enums have no references of their own
        if matches!(files[fi].decls[di].kind, DK::LiteralConst | DK::Enum | DK::ConstEnum) {
          continue;
        }
        if rng.chance(3, 4) {
          files[fi].decls[di].sig_refs.push((tf, td));
        } else {
          files[fi].decls[di].body_refs.push((tf, td));
        }
      }
    }
    for tf in fi + 1..n {
      files[fi].import_style.insert(tf, rng.below(4) as u8);
    }
    // whole-namespace references
    if fi + 1 < n {
      for di in 0..files[fi].decls.len() {
        if matches!(files[fi].decls[di].kind, DK::Interface | DK::TypeAlias | DK::DeclareFunction) && rng.chance(1, 6) {
          let tf = rng.range(fi + 1, n - 1);
          files[fi].decls[di].ns_refs.push(tf);
        }
      }
    }
  }
  // re-exports (again only towards higher-indexed files)
  for fi in 0..n {
    for tf in fi + 1..n {
      match rng.below(8) {
        0 | 1 => files[fi].reexports.push(ReExport::Star { from: tf }),
        2 => files[fi].reexports.push(ReExport::StarAs {
          from: tf,
          ns: format!("ns{}_{}", fi, tf),
        }),
        3 => {
          let cands: Vec<String> = files[tf]
            .decls
            .iter()
            .filter(|d| d.exported)
            .map(|d| d.name.clone())
            .collect();
          if !cands.is_empty() {
            let name = rng.pick(&cands).clone();
            let alias = rng.coin().then(|| format!("{}Alias{}", name, fi));
            files[fi].reexports.push(ReExport::Named {
              from: tf,
              name,
              alias,
            });
          }
        }
        _ => {}
      }
    }
  }
  let mut exports = vec![(".".to_string(), 0usize)];
  if n > 1 && rng.chance(1, 2) {
    exports.push(("./types".to_string(), 1));
  }
  let mut pkg = Pkg {
    name: name.to_string(),
    version: "1.0.0".to_string(),
    files,
    exports,
    extra: BTreeMap::new(),
  };
  if dirty {
    // spoil one declaration of the public API
    let public = public_set(&pkg);
    let cands: Vec<(usize, usize)> = public
      .iter()
      .cloned()
      .filter(|(f, d)| {
        matches!(
          pkg.files[*f].decls[*d].kind,
          DK::Function | DK::Class | DK::TypedConst | DK::ArrowConst | DK::OverloadedFunction | DK::AbstractClass | DK::CompositeConst
        )
      })
      .collect();
    if !cands.is_empty() {
      let (f, d) = *rng.pick(&cands);
      let k = pkg.files[f].decls[d].kind;
      pkg.files[f].decls[d].dirty = Some(match k {
        DK::Function => *rng.pick(&[
          Dirty::MissingReturnType,
          Dirty::UntypedParam,
          Dirty::DestructuredParam,
          Dirty::UntypedRestParam,
          Dirty::DefaultParamNeedsInference,
          Dirty::EarlyBareReturn,
        ]),
        DK::ArrowConst => *rng.pick(&[Dirty::MissingReturnType, Dirty::EarlyBareReturn, Dirty::ConciseArrowDefaultParam]),
        DK::Class => *rng.pick(&[
          Dirty::MethodEarlyBareReturn,
          Dirty::UntypedClassProp,
          Dirty::MissingMethodReturn,
          Dirty::MethodOverloadUntypedParam,
          Dirty::UntypedAutoAccessor,
          Dirty::GetterMissingReturn,
          Dirty::SetterUntypedParam,
          Dirty::CtorUntypedParam,
          Dirty::ParamPropertyNeedsInference,
          Dirty::UntypedStaticProp,
          Dirty::SuperClassExpr,
        ]),
        DK::AbstractClass => *rng.pick(&[
          Dirty::AbstractMethodUntypedParam,
          Dirty::MethodOverloadUntypedParam,
          Dirty::MissingMethodReturn,
          Dirty::MethodEarlyBareReturn,
          Dirty::GetterMissingReturn,
          Dirty::UntypedStaticProp,
        ]),
        DK::OverloadedFunction => Dirty::OverloadUntypedParam,
        DK::TypedConst => *rng.pick(&[Dirty::UntypedConstCall, Dirty::UntypedConstCall, Dirty::DestructuredConst, Dirty::UsingConst]),
        DK::CompositeConst => *rng.pick(&[
          Dirty::CallInArray,
          Dirty::CallInObject,
          Dirty::CallInTemplateFirstSlot,
          Dirty::CallInConditional,
          Dirty::NewInArray,
          Dirty::CallInComputedKey,
        ]),
        _ => Dirty::MissingReturnType,
      });
    }
  }
  pkg
}

/// export names of a file (own exports + re-exports; stars expanded)
pub fn export_names(p: &Pkg, f: usize) -> BTreeSet<String> {
  let mut seen = BTreeSet::new();
  export_names_inner(p, f, &mut seen)
}

fn export_names_inner(p: &Pkg, f: usize, visiting: &mut BTreeSet<usize>) -> BTreeSet<String> {
  let mut out = BTreeSet::new();
  if !visiting.insert(f) {
    return out;
  }
  for d in &p.files[f].decls {
    if d.exported {
      out.insert(d.name.clone());
    }
    if d.default_export {
      out.insert("default".to_string());
    }
  }
  for r in &p.files[f].reexports {
    match r {
      ReExport::Named { name, alias, .. } => {
        out.insert(alias.clone().unwrap_or(name.clone()));
      }
      ReExport::StarAs { ns, .. } => {
        out.insert(ns.clone());
      }
      ReExport::Star { from } => {
        for n in export_names_inner(p, *from, visiting) {
          if n != "default" {
            out.insert(n);
          }
        }
      }
    }
  }
  visiting.remove(&f);
  out
}

/// declarations reachable from the public API (entrypoint exports, through
/// re-exports and signature references)
pub fn public_set(p: &Pkg) -> BTreeSet<(usize, usize)> {
  public_set_opt(p, true)
}

/// `ns_includes_default = false` models an implementation that forgets that
/// `export * as ns from "./x"` makes x's default export reachable as ns.default
pub fn public_set_opt(p: &Pkg, ns_includes_default: bool) -> BTreeSet<(usize, usize)> {
  public_set_detail(p, ns_includes_default).0
}

/// (declarations reachable from the public API, declarations that are
/// exports of the API themselves — for a namespace: all of its exported
/// members are public, not just the one a signature names)
pub fn public_set_detail(p: &Pkg, ns_includes_default: bool) -> (BTreeSet<(usize, usize)>, BTreeSet<(usize, usize)>) {
  let used = used_sig_refs(p);
  // declarations that are exports of the package API themselves (as opposed
  // to being pulled in by a reference); computed to a fixpoint because a
  // `typeof ns` reference can turn a whole file into API late
  let mut api_exported: BTreeSet<(usize, usize)> = BTreeSet::new();
  loop {
    let before = api_exported.clone();
    let mut public: BTreeSet<(usize, usize)> = BTreeSet::new();
    let mut work: Vec<(usize, usize)> = vec![];
    // (file, whether its default export is part of the API): `export *` does
    // not re-export `default`, `export * as ns` / `typeof ns` do (ns.default)
    let mut files_exported: BTreeSet<(usize, bool)> = BTreeSet::new();
    let mut fwork: Vec<(usize, bool)> = p.exports.iter().map(|(_, f)| (*f, true)).collect();
    loop {
      if let Some((f, with_default)) = fwork.pop() {
        if !files_exported.insert((f, with_default)) {
          continue;
        }
        for (di, d) in p.files[f].decls.iter().enumerate() {
          if d.exported || (d.default_export && with_default) {
            work.push((f, di));
            api_exported.insert((f, di));
          }
        }
        for r in &p.files[f].reexports {
          match r {
            ReExport::Star { from } => fwork.push((*from, false)),
            ReExport::StarAs { from, .. } => fwork.push((*from, ns_includes_default)),
            ReExport::Named { from, name, .. } => {
              if let Some(di) = p.files[*from].decls.iter().position(|d| &d.name == name) {
                work.push((*from, di));
                api_exported.insert((*from, di));
              }
            }
          }
        }
        continue;
      }
      let Some((f, d)) = work.pop() else { break };
      if !public.insert((f, d)) {
        continue;
      }
      let decl = &p.files[f].decls[d];
      if decl.kind == DK::Namespace && !before.contains(&(f, d)) {
        // a private namespace is only ever referenced as `Ns.Inner`: fast check
        // keeps just that member, whose type is the first signature reference
        if let Some(r) = decl.sig_refs.first() {
          work.push(*r);
        }
        continue;
      }
      if let Some(rs) = used.get(&(f, d)) {
        for r in rs {
          work.push(*r);
        }
      }
      if renders_ns_refs(decl.kind) {
        for tf in &decl.ns_refs {
          fwork.push((*tf, true));
        }
      }
    }
    if api_exported == before {
      return (public, api_exported);
    }
  }
}

pub fn renders_ns_refs(k: DK) -> bool {
  matches!(k, DK::Interface | DK::TypeAlias | DK::DeclareFunction)
}

/// files reachable from `g` through `export *` statements
pub fn star_reach(p: &Pkg, g: usize) -> BTreeSet<usize> {
  let mut out = BTreeSet::new();
  let mut work = vec![g];
  while let Some(x) = work.pop() {
    for r in &p.files[x].reexports {
      if let ReExport::Star { from } = r
        && out.insert(*from)
      {
        work.push(*from);
      }
    }
  }
  out
}

// ------------------------------------------------------------ rendering

thread_local! {
  /// signature references actually written by the renderer: (file, decl) -> refs
  static USED: std::cell::RefCell<BTreeMap<(usize, usize), BTreeSet<(usize, usize)>>> =
    const { std::cell::RefCell::new(BTreeMap::new()) };
}

/// the references the rendered *signature* of each declaration really uses
pub fn used_sig_refs(p: &Pkg) -> BTreeMap<(usize, usize), BTreeSet<(usize, usize)>> {
  USED.with(|u| u.borrow_mut().clear());
  for f in 0..p.files.len() {
    let _ = render_file(p, f);
  }
  USED.with(|u| u.borrow().clone())
}

struct Ctx<'a> {
  p: &'a Pkg,
  f: usize,
}

impl Ctx<'_> {
  /// how to name declaration (tf, td) in a *type* position of file self.f
  fn type_ref(&self, (tf, td): (usize, usize), imports: &mut BTreeSet<String>) -> String {
    let d = &self.p.files[tf].decls[td];
    let base = self.name_of((tf, td), true, imports);
    match d.kind {
      DK::Class | DK::AbstractClass | DK::Interface | DK::TypeAlias | DK::Enum | DK::ConstEnum => base,
      // half of the same-file namespaces are named through an import-equals alias
      DK::Namespace if tf == self.f && d.variant % 2 == 0 => {
        imports.insert(format!("import Al_{} = {}.Inner;", d.name, base));
        format!("Al_{}", d.name)
      }
      DK::Namespace => format!("{}.Inner", base),
      // a third of the value declarations are named through a qualified name (`typeof value.member`)
      _ if d.variant % 3 == 0 => format!("typeof {}.length", base),
      _ => format!("typeof {}", base),
    }
  }

  /// the file a named import of (tf, name) is written against: tf itself,
  /// or a file that star re-exports it
  fn import_source(&self, tf: usize) -> usize {
    if self.p.files[self.f].via_reexport {
      for g in self.f + 1..self.p.files.len() {
        if g != tf && star_reach(self.p, g).contains(&tf) {
          return g;
        }
      }
    }
    tf
  }

  fn name_of(&self, (tf, td): (usize, usize), type_pos: bool, imports: &mut BTreeSet<String>) -> String {
    let d = &self.p.files[tf].decls[td];
    if tf == self.f {
      return d.name.clone();
    }
    if d.default_export && !d.exported {
      let rel = rel_path(&self.p.files[self.f].path, &self.p.files[tf].path);
      imports.insert(format!("import D{} from \"{}\";", tf, rel));
      return format!("D{}", tf);
    }
    let rel = rel_path(&self.p.files[self.f].path, &self.p.files[tf].path);
    let via = rel_path(&self.p.files[self.f].path, &self.p.files[self.import_source(tf)].path);
    match self.p.files[self.f].import_style.get(&tf).copied().unwrap_or(0) {
      1 => {
        imports.insert(format!("import * as f{} from \"{}\";", tf, rel));
        format!("f{}.{}", tf, d.name)
      }
      2 if type_pos && !matches!(d.kind, DK::Function | DK::OverloadedFunction | DK::TypedConst | DK::LiteralConst | DK::ArrowConst | DK::FunctionExprConst | DK::DeclareFunction | DK::Namespace | DK::CompositeConst) => {
        imports.insert(format!("import type {{ {} }} from \"{}\";", d.name, via));
        d.name.clone()
      }
      // generic targets (their renderings declare `<T = ...>`) take a type argument that names a private,
      // file-local type nothing else refers to
      3 if type_pos && d.kind.is_type_namespace() && generic_arity(d) => {
        imports.insert("type HiddenArg = { hidden: number };".to_string());
        format!("import(\"{}\").{}<HiddenArg>", via, d.name)
      }
      3 if type_pos && d.kind.is_type_namespace() => format!("import(\"{}\").{}", via, d.name),
      _ => {
        imports.insert(format!("import {{ {} }} from \"{}\";", d.name, via));
        d.name.clone()
      }
    }
  }
}

/// whether the rendering of `d` declares one (defaulted) type parameter
fn generic_arity(d: &Decl) -> bool {
  match d.kind {
    DK::Interface | DK::TypeAlias => d.variant % 3 == 0,
    DK::Class | DK::AbstractClass => d.variant % 4 == 0,
    _ => false,
  }
}

pub fn rel_path(from: &str, to: &str) -> String {
  let fd: Vec<&str> = from.trim_start_matches('/').split('/').collect();
  let td: Vec<&str> = to.trim_start_matches('/').split('/').collect();
  let fdir = &fd[..fd.len() - 1];
  let mut common = 0;
  while common < fdir.len() && common < td.len() - 1 && fdir[common] == td[common] {
    common += 1;
  }
  let mut s = String::new();
  if fdir.len() == common {
    s.push_str("./");
  } else {
    for _ in common..fdir.len() {
      s.push_str("../");
    }
  }
  s.push_str(&td[common..].join("/"));
  s
}

pub fn render_file(p: &Pkg, f: usize) -> String {
  let cx = Ctx { p, f };
  let file = &p.files[f];
  let imports: std::cell::RefCell<BTreeSet<String>> = std::cell::RefCell::new(BTreeSet::new());
  let mut body = String::new();
  for (di, d) in file.decls.iter().enumerate() {
    let n_refs = d.sig_refs.len();
    let mark = |r: (usize, usize)| {
      USED.with(|u| u.borrow_mut().entry((f, di)).or_default().insert(r));
    };
    let t = |i: usize| -> String {
      if n_refs == 0 {
        return "number".to_string();
      }
      let r = d.sig_refs[i % n_refs];
      mark(r);
      cx.type_ref(r, &mut imports.borrow_mut())
    };
    let arr = |i: usize| -> String {
      let x = t(i);
      if x.starts_with("typeof") || x.contains("import(") {
        format!("Array<{}>", x)
      } else {
        format!("{}[]", x)
      }
    };
    // `typeof <namespace import>` of whole files
    let ns_types: Vec<String> = if renders_ns_refs(d.kind) {
      d.ns_refs
        .iter()
        .map(|tf| {
          imports.borrow_mut().insert(format!(
            "import * as w{} from \"{}\";",
            tf,
            rel_path(&file.path, &p.files[*tf].path)
          ));
          format!("typeof w{}", tf)
        })
        .collect()
    } else {
      vec![]
    };
    let body_use: String = d
      .body_refs
      .iter()
      .map(|r| {
        let target = &p.files[r.0].decls[r.1];
        let n = cx.name_of(*r, !target.kind.is_value(), &mut imports.borrow_mut());
        if target.kind.is_value() && !matches!(target.kind, DK::ConstEnum | DK::Namespace | DK::AbstractClass) {
          format!("  console.log({});\n", n)
        } else if target.kind == DK::Namespace {
          format!("  {{ let tmp: {}.Inner | undefined; console.log(tmp); }}\n", n)
        } else {
          format!("  {{ let tmp: {} | undefined; console.log(tmp); }}\n", n)
        }
      })
      .collect();
    let body_use = if d.salt != 0 { format!("{}  console.log({});\n", body_use, d.salt) } else { body_use };
    let ex = if d.default_export {
      "export default "
    } else if d.exported {
      "export "
    } else {
      ""
    };
    let v = d.variant;
    match d.kind {
      DK::Function => {
        let generics = if v % 5 == 0 { "<T extends object = {}>" } else { "" };
        let is_async = v % 7 == 0 && d.dirty.is_none();
        let ret = match d.dirty {
          Some(Dirty::MissingReturnType) | Some(Dirty::EarlyBareReturn) => String::new(),
          _ if is_async => format!(": Promise<{}>", t(0)),
          _ => format!(": {}", t(0)),
        };
        let p1 = match d.dirty {
          Some(Dirty::UntypedParam) => "a".to_string(),
          Some(Dirty::DestructuredParam) => "{ a, b }".to_string(),
          Some(Dirty::DefaultParamNeedsInference) => "a = compute(0)".to_string(),
          // an unannotated parameter whose type is inferred from `expr as T`,
          // followed by a required one (its default must not survive)
          _ if v % 11 == 3 => format!("a = compute(0) as {}, a2: {}", t(1), t(1)),
          _ => format!("a: {}", t(1)),
        };
        let p2 = match v % 4 {
          _ if d.dirty == Some(Dirty::UntypedRestParam) => ", ...rest".to_string(),
          0 => format!(", b?: {}", t(2)),
          1 if v % 3 == 0 => format!(", b: {} = undefined as any, ...rest: {}", t(2), arr(2)),
          1 => format!(", b: {} = undefined as any", t(2)),
          2 => format!(", ...rest: {}", arr(2)),
          _ => String::new(),
        };
        let early = if d.dirty == Some(Dirty::EarlyBareReturn) { "  if (compute(0)) {\n    return;\n  }\n" } else { "" };
        let body_use_fn = format!("{}{}", body_use, early);
        // a third of the exported functions have a companion type of the same name declared first
        if v % 6 == 2 && !d.default_export {
          body.push_str(&format!("{}type {} = {{ companion: {} }};\n", ex, d.name, t(1)));
        }
        body.push_str(&format!(
          "{}{}function {}{}({}{}){} {{\n{}  return compute({}){};\n}}\n",
          ex,
          if is_async { "async " } else { "" },
          d.name,
          generics,
          p1,
          p2,
          ret,
          body_use_fn,
          (v % 9),
          // `return <expr> as T` is inferable, a bare call is not
          if matches!(d.dirty, Some(Dirty::MissingReturnType) | Some(Dirty::EarlyBareReturn)) { "" } else { " as any" }
        ));
        // expando properties: the transform gathers them into a namespace of the function's name
        if v % 8 == 5 && d.dirty.is_none() {
          body.push_str(&format!("{}.label = \"text\";\n{}.limit = 10;\n", d.name, d.name));
        }
      }
      DK::OverloadedFunction => {
        if d.dirty == Some(Dirty::OverloadUntypedParam) {
          body.push_str(&format!("{}function {}(a): {};\n", ex, d.name, t(1)));
        } else {
          body.push_str(&format!("{}function {}(a: {}): {};\n", ex, d.name, t(0), t(1)));
        }
        body.push_str(&format!("{}function {}(a: {}, b: {}): {};\n", ex, d.name, t(0), t(2), t(1)));
        body.push_str(&format!(
          "{}function {}(a: any, b?: any): any {{\n{}  return [a, b];\n}}\n",
          ex, d.name, body_use
        ));
      }
      DK::DeclareFunction => {
        let extra: String = ns_types.iter().enumerate().map(|(i, n)| format!(", w{}: {}", i, n)).collect();
        body.push_str(&format!("{}declare function {}(a: {}{}): {};\n", ex, d.name, t(0), extra, t(1)));
      }
      DK::Class | DK::AbstractClass => {
        let abs = if d.kind == DK::AbstractClass { "abstract " } else { "" };
        let parent_ref = d
          .sig_refs
          .iter()
          .find(|r| p.files[r.0].decls[r.1].kind == DK::Class && (r.0 != f || r.1 < di))
          .cloned();
        let parent = parent_ref.map(|r| {
          mark(r);
          cx.name_of(r, false, &mut imports.borrow_mut())
        });
        let generics = if v % 4 == 0 { "<T = unknown>" } else { "" };
        // decorators (class, method, property, accessor, parameter), auto-accessors and static blocks:
        // all implementation detail that the transform has to remove
        let deco = v % 5 == 1;
        let dc = |s: &'static str| if deco { s } else { "" };
        let mut s = format!(
          "{}{}{}class {}{}",
          dc("@deco\n@decoWith(\"class\")\n"),
          ex,
          abs,
          d.name.as_str(),
          generics
        );
        if d.dirty == Some(Dirty::SuperClassExpr) {
          s.push_str(&format!(" extends (compute(1) as typeof {})", parent.clone().unwrap_or_else(|| "Object".to_string())));
        } else if let Some(pn) = &parent {
          s.push_str(&format!(" extends {}", pn));
        }
        if v % 3 == 0 {
          s.push_str(" implements Disposable");
        }
        s.push_str(" {\n");
        if d.dirty == Some(Dirty::UntypedStaticProp) {
          s.push_str("  static count = compute(0);\n");
        } else {
          s.push_str(&format!("  static count: number = {};\n", v % 10));
        }
        match d.dirty {
          Some(Dirty::UntypedAutoAccessor) => s.push_str("  accessor bad = compute(1);\n"),
          Some(Dirty::GetterMissingReturn) => s.push_str("  get bad() {\n    return compute(1);\n  }\n"),
          Some(Dirty::SetterUntypedParam) => s.push_str("  set bad(value) {\n    compute(1);\n  }\n"),
          _ => {}
        }
        s.push_str(&format!("  {}readonly first: {} = undefined as any;\n", dc("@decoWith({ column: compute(1) }) "), t(0)));
        match d.dirty {
          Some(Dirty::UntypedClassProp) => s.push_str("  second = compute(1);\n"),
          _ => s.push_str(&format!("  protected second?: {};\n", t(1))),
        }
        s.push_str(&format!("  {}literal = \"text\";\n", dc("@deco ")));
        s.push_str(&format!("  {}private hidden: Map<string, number> = new Map();\n", dc("@decoWith(1) ")));
        s.push_str("  #reallyHidden = 1;\n");
        if v % 7 == 2 || deco {
          s.push_str(&format!("  {}accessor auto: {} = undefined as any;\n", dc("@deco "), t(1)));
          s.push_str("  static accessor sauto = 1;\n");
          s.push_str("  private accessor pauto: number = compute(2) as number;\n");
          s.push_str("  accessor #hauto = 1;\n");
        }
        if v % 3 == 1 {
          s.push_str(&format!("  static {{\n    {}.count = compute(3) as number;\n  }}\n", d.name));
        }
        let has_super = parent.is_some() || d.dirty == Some(Dirty::SuperClassExpr);
        if d.dirty == Some(Dirty::CtorUntypedParam) {
          s.push_str(&format!("  constructor(bad) {{\n    {}\n  }}\n", if has_super { "super(undefined as any, 1);" } else { "" }));
        } else if d.dirty == Some(Dirty::ParamPropertyNeedsInference) {
          s.push_str(&format!(
            "  constructor(public bad = compute(1)) {{\n    {}\n  }}\n",
            if has_super { "super(undefined as any, 1);" } else { "" }
          ));
        } else if v % 2 == 0 && v % 10 == 4 && parent.is_none() {
          // constructor overloads whose implementation declares parameter properties
          s.push_str(&format!(
            "  constructor(px: {});\n  constructor(px: {}, py: number);\n  constructor(public px: any, readonly py?: any) {{\n{}  }}\n",
            t(2),
            t(2),
            body_use
          ));
        } else if v % 2 == 0 {
          s.push_str(&format!(
            "  constructor(public param: {}, private other: number = 1, {}third?: {}, public level: number | string = 1, readonly tag: \"a\" | \"b\" = \"a\") {{\n    {}\n{}  }}\n",
            t(2),
            dc("@decoWith(\"param\") "),
            t(0),
            if parent.is_some() { "super(undefined as any, 1);" } else { "" },
            body_use
          ));
        } else if parent.is_some() {
          s.push_str("  constructor() {\n    super(undefined as any, 1);\n  }\n");
        }
        let mret = match d.dirty {
          Some(Dirty::MissingMethodReturn) | Some(Dirty::MethodEarlyBareReturn) => String::new(),
          _ => format!(": {}", t(1)),
        };
        s.push_str(&format!(
          "  {}method({}arg: {}, opt?: string){} {{\n{}    return compute(this.#reallyHidden){};\n  }}\n",
          dc("@decoWith({ kind: \"method\" })\n  "),
          dc("@deco "),
          t(0),
          mret,
          if d.dirty == Some(Dirty::MethodEarlyBareReturn) { "    if (opt) {\n      return;\n    }\n" } else { "" },
          if matches!(d.dirty, Some(Dirty::MissingMethodReturn) | Some(Dirty::MethodEarlyBareReturn)) { "" } else { " as any" }
        ));
        if d.dirty == Some(Dirty::MethodOverloadUntypedParam) {
          s.push_str(&format!("  over(a): {};\n", t(1)));
        } else {
          s.push_str(&format!("  over(a: {}): {};\n", t(0), t(1)));
        }
        s.push_str(&format!("  over(a: {}, b: number): {};\n", t(0), t(1)));
        s.push_str("  over(a: any, b?: any): any {\n    return a;\n  }\n");
        s.push_str(&format!("  {}get prop(): {} {{\n    return undefined as any;\n  }}\n", dc("@deco "), t(2)));
        s.push_str(&format!("  set prop(value: {}) {{\n    this.hidden.clear();\n  }}\n", t(2)));
        s.push_str(&format!("  static create<U>(input: U): {} | U {{\n    return input;\n  }}\n", t(0)));
        s.push_str("  private secret(x: number): number {\n    return x + this.#reallyHidden;\n  }\n");
        if v % 3 == 0 {
          s.push_str("  [Symbol.dispose](): void {\n    this.hidden.clear();\n  }\n");
        }
        if d.kind == DK::AbstractClass {
          if d.dirty == Some(Dirty::AbstractMethodUntypedParam) {
            s.push_str("  abstract todo(a): void;\n");
          } else {
            s.push_str(&format!("  abstract todo(a: {}): void;\n", t(1)));
          }
        }
        s.push_str("}\n");
        body.push_str(&s);
      }
      DK::Interface => {
        let ext_ref = d
          .sig_refs
          .iter()
          .find(|r| p.files[r.0].decls[r.1].kind == DK::Interface && **r != (f, di))
          .cloned();
        let ext = ext_ref.map(|r| {
          mark(r);
          // heritage clauses take entity names, not `import("..")` types
          cx.name_of(r, false, &mut imports.borrow_mut())
        });
        let keyed = v % 4 == 1;
        if keyed {
          body.push_str(&format!("const KEY_{}: unique symbol = Symbol();\n", d.name));
        }
        body.push_str(&format!(
          "{}interface {}{}{} {{\n  a: {};\n  readonly b?: {};\n  m(x: {}): {};\n{}{}  [key: string]: unknown;\n}}\n",
          ex,
          d.name,
          if v % 3 == 0 { "<T = string>" } else { "" },
          ext.map(|e| format!(" extends {}", e)).unwrap_or_default(),
          t(0),
          t(1),
          t(2),
          t(0),
          ns_types.iter().enumerate().map(|(i, n)| format!("  w{}: {};\n", i, n)).collect::<String>(),
          if keyed { format!("  [KEY_{}](o: number): void;\n", d.name) } else { String::new() },
        ));
      }
      DK::TypeAlias => {
        let keyed = v % 4 == 1;
        if keyed {
          // value-only declarations referenced only as computed keys of
          // members of a type literal
          body.push_str(&format!("const KEY_{}: unique symbol = Symbol();\nconst KEYP_{}: unique symbol = Symbol();\n", d.name, d.name));
        }
        body.push_str(&format!(
          "{}type {}{} = {}{} | {} | {{ x: {}; y?: readonly {}[]{} }} | ((arg: {}) => {}) | Map<string, {}> | `pre-${{string}}` | {}null;\n",
          ex,
          d.name,
          if v % 3 == 0 { "<T = number>" } else { "" },
          ns_types.iter().map(|n| format!("{} | ", n)).collect::<String>(),
          t(0),
          arr(1),
          t(2),
          "string",
          if keyed { format!("; [KEY_{}](o: number): void; readonly [KEYP_{}]: number", d.name, d.name) } else { String::new() },
          t(1),
          t(2),
          t(0),
          if v % 3 == 0 { "T | " } else { "" },
        ));
      }
      DK::Enum | DK::ConstEnum => {
        body.push_str(&format!(
          "{}{}enum {} {{\n  A,\n  B = {},\n  C = \"c\",\n}}\n",
          ex,
          if d.kind == DK::ConstEnum { "const " } else { "" },
          d.name,
          2 + v % 5
        ));
      }
      DK::TypedConst => {
        match d.dirty {
          Some(Dirty::UntypedConstCall) => body.push_str(&format!(
            "{}const {} = compute({});\n",
            if d.default_export { "" } else { ex },
            d.name,
            v % 9
          )),
          Some(Dirty::DestructuredConst) => body.push_str(&format!(
            "{}const {{ {} }} = compute({}) as any;\n",
            if d.default_export { "" } else { ex },
            d.name,
            v % 9
          )),
          // `using` declarations cannot carry `export`: the name reaches the API through an export list
          Some(Dirty::UsingConst) if !d.default_export && d.exported => body.push_str(&format!(
            "using {}: {} = compute({}) as any;\nexport {{ {} }};\n",
            d.name,
            t(0),
            v % 9,
            d.name
          )),
          Some(Dirty::UsingConst) => body.push_str(&format!("using {}: {} = compute({}) as any;\n", d.name, t(0), v % 9)),
          _ => body.push_str(&format!(
            "{}const {}: {} = compute({}) as any;\n",
            if d.default_export { "" } else { ex },
            d.name,
            t(0),
            v % 9
          )),
        }
        if d.default_export {
          body.push_str(&format!("export default {};\n", d.name));
        }
      }
      DK::LiteralConst => {
        let lit = match v % 6 {
          0 => "5".to_string(),
          1 => "\"text\"".to_string(),
          2 => "true".to_string(),
          3 => "-1.5".to_string(),
          4 => "`template`".to_string(),
          _ => "10n".to_string(),
        };
        body.push_str(&format!("{}const {} = {};\n", ex, d.name, lit));
      }
      DK::ArrowConst if d.dirty == Some(Dirty::ConciseArrowDefaultParam) => {
        body.push_str(&format!("{}const {} = (a: {}, b = compute(2)) => [a, b, 1] as const;\n", ex, d.name, t(0)));
      }
      DK::ArrowConst => {
        let ret = match d.dirty {
          Some(Dirty::MissingReturnType) | Some(Dirty::EarlyBareReturn) => String::new(),
          _ => format!(": {}", t(1)),
        };
        body.push_str(&format!(
          "{}const {} = (a: {}, b: number = 2){} => {{\n{}{}  return compute(b){};\n}};\n",
          ex,
          d.name,
          t(0),
          ret,
          body_use,
          if d.dirty == Some(Dirty::EarlyBareReturn) { "  if (b) {\n    return;\n  }\n" } else { "" },
          if matches!(d.dirty, Some(Dirty::MissingReturnType) | Some(Dirty::EarlyBareReturn)) { "" } else { " as any" }
        ));
      }
      DK::FunctionExprConst => {
        body.push_str(&format!(
          "{}const {} = function (a: {}): {} {{\n{}  return compute(1) as any;\n}};\n",
          ex,
          d.name,
          t(0),
          t(1),
          body_use
        ));
      }
      DK::CompositeConst => {
        // value references are written into the (leavable, hence kept)
        // initialiser
        let vref = |i: usize| -> String {
          if n_refs == 0 {
            return format!("{}", i + 1);
          }
          let r = d.sig_refs[i % n_refs];
          mark(r);
          let target = &p.files[r.0].decls[r.1];
          let n = cx.name_of(r, false, &mut imports.borrow_mut());
          if target.kind == DK::Enum { format!("{}.A", n) } else { n }
        };
        let init = match d.dirty {
          Some(Dirty::CallInArray) => "[1, compute(1)]".to_string(),
          Some(Dirty::CallInObject) => "{ a: 1, b: compute(1) }".to_string(),
          Some(Dirty::CallInTemplateFirstSlot) => "[`${compute(1)} of ${10}`]".to_string(),
          Some(Dirty::CallInConditional) => "true ? compute(1) : 2".to_string(),
          Some(Dirty::NewInArray) => "[new Map()]".to_string(),
          Some(Dirty::CallInComputedKey) => "{ plain: 1, [String(compute(1))]: 2 }".to_string(),
          _ => match v % 5 {
            0 => format!("[{}, \"x\", {}]", vref(0), vref(1)),
            1 => format!("{{ a: {}, \"b\": [{}], 3: -1, nested: {{ c: null }} }}", vref(0), vref(1)),
            2 => format!("[`${{{}}} of ${{10}}`, {}] as const", vref(0), vref(1)),
            3 => format!("true ? {} : {}", vref(0), vref(1)),
            _ => format!("{{ f: (a: number): string => compute(a) as any, g: {} }}", vref(0)),
          },
        };
        body.push_str(&format!("{}const {} = {};\n", ex, d.name, init));
      }
      DK::Namespace => {
        body.push_str(&format!(
          "{}namespace {} {{\n  export interface Inner {{\n    v: {};\n  }}\n  export const k: {} = undefined as any;\n  export function nf(a: Inner): {} {{\n    return hiddenHelper(a) as any;\n  }}\n  function hiddenHelper(a: Inner): unknown {{\n    return a;\n  }}\n  export namespace Deep {{\n    export type D = Inner | {};\n  }}\n}}\n",
          ex,
          d.name,
          t(0),
          t(1),
          t(2),
          t(0)
        ));
      }
    }
  }
  let mut out = String::new();
  for i in imports.into_inner() {
    out.push_str(&i);
    out.push('\n');
  }
  out.push_str("function compute(x: number): unknown {\n  return [x, Date.now()];\n}\n");
  if body.contains("@deco") {
    out.push_str("function deco(...args: any[]): any {\n  return compute(args.length);\n}\nfunction decoWith(o: unknown): (...args: any[]) => any {\n  return deco;\n}\n");
  }
  out.push_str(&body);
  for r in &file.reexports {
    match r {
      ReExport::Named { from, name, alias } => out.push_str(&format!(
        "export {{ {}{} }} from \"{}\";\n",
        name,
        alias.as_ref().map(|a| format!(" as {}", a)).unwrap_or_default(),
        rel_path(&file.path, &p.files[*from].path)
      )),
      ReExport::Star { from } => out.push_str(&format!(
        "export * from \"{}\";\n",
        rel_path(&file.path, &p.files[*from].path)
      )),
      ReExport::StarAs { from, ns } => out.push_str(&format!(
        "export * as {} from \"{}\";\n",
        ns,
        rel_path(&file.path, &p.files[*from].path)
      )),
    }
  }
  if let Some(lines) = p.extra.get(&f) {
    for l in lines {
      out.push_str(l);
      out.push('\n');
    }
  }
  out
}

/// files that carry part of the public API: entrypoints, files on a
/// re-export path from them, files with a public declaration
pub fn public_files(p: &Pkg) -> BTreeSet<usize> {
  let mut out: BTreeSet<usize> = public_set(p).into_iter().map(|(f, _)| f).collect();
  let mut work: Vec<usize> = p.exports.iter().map(|(_, f)| *f).collect();
  let mut seen = BTreeSet::new();
  while let Some(f) = work.pop() {
    if !seen.insert(f) {
      continue;
    }
    out.insert(f);
    for r in &p.files[f].reexports {
      match r {
        ReExport::Star { from } | ReExport::StarAs { from, .. } => work.push(*from),
        // only the named declaration becomes public (already in `out`)
        ReExport::Named { .. } => {}
      }
    }
  }
  out
}

pub fn pkg_to_world(pkgs: &[Pkg], w: &mut World) {
  for p in pkgs {
    let mut manifest = serde_json::Map::new();
    for f in 0..p.files.len() {
      let src = render_file(p, f);
      manifest.insert(
        p.files[f].path.clone(),
        json!({"size": src.len(), "checksum": format!("sha256-{}", sha256_hex(src.as_bytes()))}),
      );
      w.add_text(&file_url(p, f), &src);
    }
    let exports: serde_json::Map<String, Value> = p
      .exports
      .iter()
      .map(|(k, f)| (k.clone(), json!(format!(".{}", p.files[*f].path))))
      .collect();
    w.add_text(
      &format!("https://jsr.io/{}/meta.json", p.name),
      &json!({"versions": {p.version.clone(): {}}}).to_string(),
    );
    w.add_text(
      &format!("https://jsr.io/{}/{}_meta.json", p.name, p.version),
      &json!({"exports": exports, "manifest": manifest}).to_string(),
    );
  }
}

pub fn pkg_json(p: &Pkg) -> Value {
  json!({
    "name": p.name, "exports": p.exports.iter().map(|(k, f)| json!([k, p.files[*f].path])).collect::<Vec<_>>(),
    "files": (0..p.files.len()).map(|f| json!({"path": p.files[f].path, "source": render_file(p, f)})).collect::<Vec<_>>(),
    "dirty": p.files.iter().flat_map(|f| f.decls.iter().filter_map(|d| d.dirty.map(|x| format!("{} {:?}", d.name, x)))).collect::<Vec<_>>(),
  })
}

/// how often the rendered package uses the rarer reference forms
pub fn feature_counts(p: &Pkg) -> BTreeMap<&'static str, u64> {
  let mut out: BTreeMap<&'static str, u64> = BTreeMap::new();
  let used = used_sig_refs(p);
  for ((f, _), refs) in &used {
    let cx = Ctx { p, f: *f };
    for (tf, td) in refs {
      let d = &p.files[*tf].decls[*td];
      if tf == f && d.kind == DK::Namespace && d.variant % 2 == 0 {
        *out.entry("feature:import-equals-alias-of-namespace-member").or_default() += 1;
      }
      if tf == f {
        continue;
      }
      if d.default_export && !d.exported {
        *out.entry("feature:default-import").or_default() += 1;
      } else if p.files[*f].import_style.get(tf).copied().unwrap_or(0) != 1 && cx.import_source(*tf) != *tf {
        *out.entry("feature:import-through-star-re-export").or_default() += 1;
        let g = cx.import_source(*tf);
        // more than one `export *` hop
        if !p.files[g].reexports.iter().any(|r| matches!(r, ReExport::Star { from } if from == tf)) {
          *out.entry("feature:import-through-two-star-hops").or_default() += 1;
        }
      }
    }
  }
  for f in &p.files {
    for d in &f.decls {
      if renders_ns_refs(d.kind) && !d.ns_refs.is_empty() {
        *out.entry("feature:typeof-namespace-import").or_default() += 1;
      }
      if let Some(x) = d.dirty {
        let _ = x;
        *out.entry("feature:dirty-declaration").or_default() += 1;
      }
      if matches!(d.kind, DK::Class | DK::AbstractClass) {
        if d.variant % 5 == 1 {
          *out.entry("feature:decorated-class").or_default() += 1;
        }
        if d.variant % 7 == 2 || d.variant % 5 == 1 {
          *out.entry("feature:auto-accessors").or_default() += 1;
        }
        if d.variant % 3 == 1 {
          *out.entry("feature:static-block").or_default() += 1;
        }
      }
      if d.kind == DK::Function && d.variant % 8 == 5 && d.dirty.is_none() {
        *out.entry("feature:expando-properties").or_default() += 1;
      }
    }
  }
  out
}
