// C14 — redirect following terminates and all lookups agree with the walk.
use crate::common::*;
use crate::world::*;
use deno_graph::CheckJsOption;
use deno_graph::GraphKind;
use deno_graph::Module;
use deno_graph::ModuleEntryRef;
use deno_graph::ModuleGraph;
use deno_graph::ModuleSpecifier;
use deno_graph::WalkOptions;
use serde_json::json;

#[derive(Clone, Debug, PartialEq, Eq)]
pub enum Reach {
  Module(String),
  Err(String),
  Nothing,
}

/// What a single-root walk reaches for `s` by following Redirect entries.
pub fn walk_reach(graph: &ModuleGraph, s: &ModuleSpecifier) -> Reach {
  let entries: Vec<(&ModuleSpecifier, ModuleEntryRef)> = graph
    .walk(
      std::iter::once(s),
      WalkOptions {
        check_js: CheckJsOption::True,
        follow_dynamic: true,
        kind: graph.graph_kind(),
        prefer_fast_check_graph: false,
      },
    )
    .collect();
  let mut cur = s.clone();
  for _ in 0..entries.len() + 2 {
    match entries.iter().find(|(k, _)| **k == cur) {
      Some((_, ModuleEntryRef::Redirect(to))) => cur = (*to).clone(),
      Some((k, ModuleEntryRef::Module(_))) => return Reach::Module(k.to_string()),
      Some((_, ModuleEntryRef::Err(e))) => {
        return Reach::Err(e.to_string_with_range());
      }
      None => return Reach::Nothing,
    }
  }
  Reach::Nothing // redirect cycle
}

/// Structural class of the redirect path starting at `s`, from the graph's
/// public redirect table and entries: `cycle` (the path revisits a specifier),
/// `slot-shadowed` (some specifier on the path is both an entry and a
/// redirect source), `long-chain` (>= 10 hops), else `plain`.
pub fn path_class(graph: &ModuleGraph, s: &ModuleSpecifier) -> &'static str {
  let mut seen = std::collections::HashSet::new();
  let mut cur = s;
  let mut hops = 0;
  let mut shadowed = false;
  let mut shadowed_by_rejection = false;
  let mut shadowed_behind_hop = false;
  seen.insert(cur.clone());
  loop {
    let has_slot = graph.modules().any(|m| m.specifier() == cur)
      || graph.module_errors().any(|e| e.specifier() == cur);
    match graph.redirects.get(cur) {
      Some(t) => {
        if has_slot {
          shadowed = true;
          // the known finding is about entries the *loader* produced for a
          // seeded redirect source; an entry produced without asking the
          // loader (a rejected import attribute, a source-phase rejection)
          // is a different shape
          if graph.module_errors().any(|e| {
            e.specifier() == cur && {
              let m = e.to_string();
              m.contains("import attribute type") || m.contains("source phase")
            }
          }) {
            // stored under the very specifier an import resolves to, or
            // one seeded hop further (the builder applies one known hop
            // before rejecting)?
            let requested = graph.modules().any(|m| {
              m.dependencies().values().any(|d| d.get_code() == Some(cur) || d.get_type() == Some(cur))
            });
            if requested {
              shadowed_by_rejection = true;
            } else {
              shadowed_behind_hop = true;
            }
          }
        }
        hops += 1;
        if !seen.insert(t.clone()) {
          return "cycle";
        }
        cur = t;
      }
      None => break,
    }
  }
  if shadowed_by_rejection {
    "slot-shadowed-by-rejected-import"
  } else if shadowed_behind_hop {
    "slot-shadowed-behind-a-seeded-hop-by-rejected-import"
  } else if shadowed {
    "slot-shadowed"
  } else if hops >= 10 {
    "long-chain"
  } else {
    "plain"
  }
}

/// For the two structural classes in which lookups (redirect table first) and
/// the walk (entries first) are known to disagree wholesale, the signature is
/// the class alone; elsewhere it names the API and what the walk reached.
fn sig(fine: String, class: &str) -> String {
  // the recorded cycle finding is one direction only: the walk (entries first) reaches the error entry that
  // sits on a cycle member and the lookups (redirect table first) miss it. The opposite direction - the walk
  // reaches nothing where a lookup returns an entry - is a different defect
  if class == "cycle" && (fine.contains("/walk=nothing/") || fine.starts_with("listing-vs-walk/extra/")) {
    return format!("walk-misses-what-lookups-return/cycle/{}", fine.split('/').nth(1).unwrap_or(""));
  }
  match class {
    "cycle" | "slot-shadowed" | "slot-shadowed-behind-a-seeded-hop-by-rejected-import" => format!("lookups-disagree-with-walk/{}", class),
    _ => fine,
  }
}

#[derive(Clone, Debug)]
enum Terminal {
  Module,
  Missing,
  Err,
  External,
  CycleTo(usize),
  ModuleOtherFinal,
  /// a module that does not parse, answered under the requested / under another final specifier
  Broken,
  BrokenOtherFinal,
}

#[derive(Clone, Debug)]
struct Case {
  hops: usize,
  terminal: Terminal,
  max_redirects: usize,
  entry: u8, // 0 root, 1 static dep, 2 dynamic dep, 3 @deno-types dep, 4 x-typescript-types, 5 rejected text import, 6 plain import then rejected text import
  kind: GraphKind,
  /// lockfile redirects seeded before the build
  lock_redirects: Vec<(String, String)>,
  scheme: &'static str,
}

fn r(scheme: &str, i: usize) -> String {
  format!("{}://h.test/r{}.ts", scheme, i)
}

fn build_case(c: &Case) -> (World, Vec<String>, String) {
  let mut w = World::new();
  let head = r(c.scheme, 0);
  for i in 0..c.hops {
    w.add(&r(c.scheme, i), Resp::Redirect(r(c.scheme, i + 1)));
  }
  let last = r(c.scheme, c.hops);
  match &c.terminal {
    Terminal::Module => {
      w.add_text(&last, "export const x: number = 1;");
    }
    Terminal::Missing => {}
    Terminal::Err => {
      w.add(&last, Resp::Err("boom".into()));
    }
    Terminal::External => {
      w.add(&last, Resp::External(None));
    }
    Terminal::CycleTo(k) => {
      w.add(&last, Resp::Redirect(r(c.scheme, *k)));
    }
    Terminal::Broken => {
      w.add_text(&last, "export const = ;;; not ( javascript");
    }
    Terminal::BrokenOtherFinal => {
      w.add(
        &last,
        Resp::Module {
          headers: vec![],
          content: b"export const = ;;; not ( javascript".to_vec(),
          final_spec: Some(format!("{}://h.test/final.ts", c.scheme)),
        },
      );
    }
    Terminal::ModuleOtherFinal => {
      w.add(
        &last,
        Resp::Module {
          headers: vec![],
          content: b"export const y = 2;".to_vec(),
          final_spec: Some(format!("{}://h.test/final.ts", c.scheme)),
        },
      );
    }
  }
  w.add_text("https://h.test/other.ts", "export const o = 1;");
  let root = "https://h.test/main.ts".to_string();
  let roots = match c.entry {
    0 => vec![head.clone()],
    1 => {
      w.add_text(&root, &format!("import \"{}\";\n", head));
      vec![root]
    }
    2 => {
      w.add_text(&root, &format!("await import(\"{}\");\n", head));
      vec![root]
    }
    3 => {
      w.add_text(
        &root,
        &format!(
          "// @deno-types=\"{}\"\nimport \"https://h.test/other.ts\";\n",
          head
        ),
      );
      vec![root]
    }
    5 => {
      // an asset-style import whose unstable flag is off: rejected without
      // asking the loader
      w.add_text(&root, &format!("import t from \"{}\" with {{ type: \"text\" }};\n", head));
      vec![root]
    }
    6 => {
      // the same after a plain import of the same specifier elsewhere
      w.add_text("https://h.test/first.ts", &format!("import \"{}\";\n", head));
      w.add_text(&root, &format!("import \"./first.ts\";\nimport t from \"{}\" with {{ type: \"text\" }};\n", head));
      vec![root]
    }
    _ => {
      // an untyped module whose types (x-typescript-types header) live behind
      // the redirect chain, imported by main.ts
      w.add(
        "https://h.test/lib.js",
        Resp::with_headers("export const l = 1;", &[("x-typescript-types", head.as_str())]),
      );
      w.add_text(&root, "import \"https://h.test/lib.js\";\n");
      vec![root]
    }
  };
  (w, roots, head)
}

fn check_graph(
  acc: &mut Acc,
  graph: &ModuleGraph,
  case_json: &serde_json::Value,
  hops: usize,
) {
  // the set of specifiers to probe
  let mut probes: Vec<ModuleSpecifier> = graph.roots.iter().cloned().collect();
  for (s, _) in graph.redirects.iter() {
    probes.push(s.clone());
  }
  for m in graph.modules() {
    for d in m.dependencies().values() {
      if let Some(s) = d.get_code() {
        probes.push(s.clone());
      }
      if let Some(s) = d.get_type() {
        probes.push(s.clone());
      }
    }
  }
  probes.sort();
  probes.dedup();
  let listing: Vec<(String, Reach)> = graph
    .specifiers()
    .map(|(s, r)| {
      (
        s.to_string(),
        match r {
          Ok(m) => Reach::Module(m.specifier().to_string()),
          Err(e) => Reach::Err(e.to_string_with_range()),
        },
      )
    })
    .collect();
  let _ = hops;
  for s in &probes {
    let bucket = path_class(graph, s);
    acc.count(&format!("path_class:{}", bucket));
    let is_redirect_source = graph.redirects.contains_key(s);
    acc.eval();
    if is_redirect_source {
      acc.nontrivial(hash64(&(case_json.to_string(), s.as_str())));
      acc.count("redirect_source_probes");
    }
    let res = graph.resolve(s);
    let res2 = graph.resolve(res);
    if res2 != res {
      acc.violation(
        sig(format!("resolve-not-idempotent/{}", bucket), bucket),
        format!("resolve({}) = {} but resolving again gives {}", s, res, res2),
        json!({"case": case_json, "specifier": s.as_str()}),
      );
    }
    let w = walk_reach(graph, s);
    let got_get = graph.get(s).map(|m| m.specifier().to_string());
    let got_try = match graph.try_get(s) {
      Ok(Some(m)) => Reach::Module(m.specifier().to_string()),
      Ok(None) => Reach::Nothing,
      Err(e) => Reach::Err(e.to_string_with_range()),
    };
    let got_contains = graph.contains(s);
    let exp_get = match &w {
      Reach::Module(m) => Some(m.clone()),
      _ => None,
    };
    let wclass = match &w {
      Reach::Module(_) => "module",
      Reach::Err(_) => "error",
      Reach::Nothing => "nothing",
    };
    acc.count(&format!("walk_reaches:{}", wclass));
    if got_get != exp_get {
      acc.violation(
        sig(format!("lookup-vs-walk/get/walk={}/{}", wclass, bucket), bucket),
        format!("get({}) = {:?} but the walk reaches {:?}", s, got_get, w),
        json!({"case": case_json, "specifier": s.as_str()}),
      );
    }
    if got_try != w {
      acc.violation(
        sig(format!("lookup-vs-walk/try_get/walk={}/{}", wclass, bucket), bucket),
        format!("try_get({}) = {:?} but the walk reaches {:?}", s, got_try, w),
        json!({"case": case_json, "specifier": s.as_str()}),
      );
    }
    if got_contains != exp_get.is_some() {
      acc.violation(
        sig(format!("lookup-vs-walk/contains/walk={}/{}", wclass, bucket), bucket),
        format!("contains({}) = {} but the walk reaches {:?}", s, got_contains, w),
        json!({"case": case_json, "specifier": s.as_str()}),
      );
    }
    // listing: redirect sources (and slots) appear with the target's result
    let listed: Vec<&Reach> = listing
      .iter()
      .filter(|(k, _)| k == s.as_str())
      .map(|(_, r)| r)
      .collect();
    match &w {
      Reach::Nothing => {
        if !listed.is_empty() {
          acc.violation(
            sig(format!("listing-vs-walk/extra/{}", bucket), bucket),
            format!("specifiers() lists {} but the walk reaches nothing", s),
            json!({"case": case_json, "specifier": s.as_str()}),
          );
        }
      }
      w => {
        if listed.len() != 1 || listed[0] != w {
          acc.violation(
            sig(format!("listing-vs-walk/walk={}/{}", wclass, bucket), bucket),
            format!(
              "specifiers() gives {:?} for {} but the walk reaches {:?}",
              listed, s, w
            ),
            json!({"case": case_json, "specifier": s.as_str()}),
          );
        }
      }
    }
  }
  // type-preferring dependency resolution
  for m in graph.modules() {
    let referrer = m.specifier();
    for (text, dep) in m.dependencies() {
      for prefer_types in [false, true] {
        acc.count("resolve_dependency_probes");
        let first = if prefer_types {
          dep.get_type().or(dep.get_code())
        } else {
          dep.get_code().or(dep.get_type())
        };
        let mut expected: Option<String> = None;
        if let Some(t) = first
          && let Reach::Module(mspec) = walk_reach(graph, t)
        {
          expected = Some(mspec.clone());
          if prefer_types {
            let mm = graph.get(&url(&mspec));
            if let Some(Module::Js(js)) = mm
              && let Some(td) = &js.maybe_types_dependency
              && let Some(ts) = td.dependency.maybe_specifier()
              && let Reach::Module(tm) = walk_reach(graph, ts)
            {
              expected = Some(tm);
            }
          }
        }
        let got = graph
          .resolve_dependency(text, referrer, prefer_types)
          .map(|s| s.to_string());
        if got != expected {
          let mut classes = vec![];
          for t in [dep.get_code(), dep.get_type()].into_iter().flatten() {
            classes.push(path_class(graph, t));
            if let Some(Module::Js(js)) = graph.get(t)
              && let Some(td) = &js.maybe_types_dependency
              && let Some(ts) = td.dependency.maybe_specifier()
            {
              classes.push(path_class(graph, ts));
            }
          }
          let class = ["cycle", "slot-shadowed-by-rejected-import", "slot-shadowed-behind-a-seeded-hop-by-rejected-import", "slot-shadowed", "long-chain"]
            .into_iter()
            .find(|c| classes.contains(c))
            .unwrap_or("plain");
          acc.violation(
            sig(
              format!(
                "resolve-dependency-vs-walk/prefer_types={}/{}",
                prefer_types, class
              ),
              class,
            ),
            format!(
              "resolve_dependency({:?}, {}, {}) = {:?}, walk-based expectation {:?}",
              text, referrer, prefer_types, got, expected
            ),
            json!({"case": case_json, "text": text, "referrer": referrer.as_str()}),
          );
        }
      }
    }
  }
}

fn run_case(c: &Case, acc: &mut Acc) {
  let (world, roots, _head) = build_case(c);
  let cj = json!({
    "hops": c.hops, "terminal": format!("{:?}", c.terminal),
    "max_redirects": c.max_redirects, "entry": c.entry,
    "kind": format!("{:?}", c.kind), "lock_redirects": c.lock_redirects,
    "scheme": c.scheme, "roots": roots,
  });
  let mut loader = ScriptedLoader::new(&world);
  loader.max_redirects = c.max_redirects;
  let mut graph = ModuleGraph::new(c.kind);
  if !c.lock_redirects.is_empty() {
    graph.fill_from_lockfile(deno_graph::FillFromLockfileOptions {
      redirects: c
        .lock_redirects
        .iter()
        .map(|(a, b)| (a.as_str(), b.as_str())),
      package_specifiers: std::iter::empty(),
    });
  }
  let cfg = BuildCfg::kind(c.kind);
  let res = catch(|| {
    run_build(&mut graph, &roots, &[], &loader, &cfg, None, Exec::Inline, None)
  });
  if let Err(p) = res {
    acc.violation(
      format!("panic/{}", p.signature()),
      format!("build panicked: {}", p.message),
      cj.clone(),
    );
    return;
  }
  acc.set_add("chain_lengths_seen", format!("{:02}", c.hops));
  acc.set_add("terminals_seen", format!("{:?}", c.terminal).split('(').next().unwrap());
  acc.sample(json!({"case": cj, "redirects": graph.redirects.len()}));
  check_graph(acc, &graph, &cj, c.hops);
}

pub fn run(tier: Tier, seed: u64) -> i32 {
  let mut rep = Report::new("C14", tier, seed);
  rep.rule = "case = (redirect chain length 0-14, terminal kind incl. cycles, \
    loader redirect limit, entry form, graph kind, lockfile-seeded redirects); \
    for every root, dependency target and redirect source s the lookups \
    get/try_get/contains/specifiers/resolve/resolve_dependency are compared with what a \
    single-root walk reaches; non-trivial = probe whose specifier is a redirect source; \
    distinct by (case, specifier)"
    .into();
  rep.assumptions = vec![
    "the walk (ModuleGraph::walk) is the reference; its own correctness is C15".into(),
  ];
  rep.floor("chain_lengths_seen", 15);
  rep.floor("redirect_source_probes", 1000);
  rep.min_nontrivial = 1000;

  let mut cases = Vec::new();
  for hops in 0..=14usize {
    let mut terminals = vec![
      Terminal::Module,
      Terminal::Missing,
      Terminal::Err,
      Terminal::External,
      Terminal::ModuleOtherFinal,
      Terminal::Broken,
      Terminal::BrokenOtherFinal,
    ];
    for k in 0..=hops {
      if hops - k < 6 {
        terminals.push(Terminal::CycleTo(k));
      }
    }
    for terminal in terminals {
      for max_redirects in [0usize, 1, 10, 20] {
        for entry in 0..7u8 {
          for kind in [GraphKind::All, GraphKind::CodeOnly] {
            if (3..=4).contains(&entry) && kind == GraphKind::CodeOnly {
              continue;
            }
            cases.push(Case {
              hops,
              terminal: terminal.clone(),
              max_redirects,
              entry,
              kind,
              lock_redirects: vec![],
              scheme: "https",
            });
          }
        }
      }
    }
  }
  // lockfile-seeded redirects: agreeing, contradicting, dangling, cyclic
  let mut rng = Rng::new(seed);
  let n_lock = tier.pick(4800, 960000);
  for _ in 0..n_lock {
    let hops = rng.range(0, 13);
    let mut lock = vec![];
    let n = rng.range(1, 4);
    for _ in 0..n {
      let from = rng.range(0, hops + 1);
      let to = match rng.below(5) {
        0 => r("https", from + 1),                 // agrees with loader
        1 => r("https", rng.range(0, hops + 1)),   // arbitrary (may form cycles)
        2 => "https://h.test/other.ts".to_string(), // contradicts
        3 => "https://h.test/nowhere.ts".to_string(), // dangling
        _ => r("https", (from + 2) % (hops + 2)),   // skip / back edge
      };
      lock.push((r("https", from), to));
    }
    let terminal = match rng.below(7) {
      0 => Terminal::Module,
      1 => Terminal::Missing,
      2 => Terminal::Err,
      3 => Terminal::CycleTo(rng.range(0, hops)),
      4 => Terminal::Broken,
      5 => Terminal::BrokenOtherFinal,
      _ => Terminal::ModuleOtherFinal,
    };
    cases.push(Case {
      hops,
      terminal,
      max_redirects: *rng.pick(&[1usize, 10, 20]),
      entry: rng.below(7) as u8,
      kind: GraphKind::All,
      lock_redirects: lock,
      scheme: "https",
    });
  }
  let acc = par_run(cases.len(), |i, acc| run_case(&cases[i], acc));
  rep.extra.insert("cases".into(), json!(cases.len()));
  rep.finish(acc)
}
