// C05 — known checksums are always enforced; new ones are recorded faithfully.
//
// Online checker over the loader/locker event log (DESIGN Appendix C) plus an
// end-state check. In tamper mode the loader serves wrong bytes for one
// resource on every path; a conforming loader (it verifies whatever checksum
// it is handed) rejects them iff the checksum was presented.
use crate::common::*;
use crate::world::*;
use deno_graph::GraphKind;
use deno_graph::Module;
use deno_graph::ModuleGraph;
use serde_json::Value;
use serde_json::json;
use std::collections::BTreeMap;
use std::collections::BTreeSet;

const REG: &str = "https://jsr.io/";

#[derive(Clone, Debug)]
struct CWorld {
  world: World,
  roots: Vec<String>,
  /// resource -> honest bytes
  honest: BTreeMap<String, Vec<u8>>,
  /// lockfile remote entries
  lock_remote: BTreeMap<String, String>,
  lock_pkg: BTreeMap<String, String>,
  /// registry packages: nv -> (manifest: path -> checksum hex or None (=missing / unsupported))
  manifests: BTreeMap<String, BTreeMap<String, Option<String>>>,
  manifest_bytes: BTreeMap<String, Vec<u8>>,
  lockfile_checksum_field: BTreeMap<String, String>,
  tampered: Option<String>,
  with_locker: bool,
  prefer_cached: bool,
  desc: Value,
}

fn gen_cworld(rng: &mut Rng) -> CWorld {
  let mut w = World::new();
  let mut honest: BTreeMap<String, Vec<u8>> = BTreeMap::new();
  let base = "https://h.test/";
  let bom = |rng: &mut Rng, s: String| -> Vec<u8> {
    if rng.chance(1, 5) {
      let mut v = vec![0xEF, 0xBB, 0xBF];
      v.extend(s.into_bytes());
      v
    } else {
      s.into_bytes()
    }
  };
  let mut add = |w: &mut World, honest: &mut BTreeMap<String, Vec<u8>>, u: &str, body: Vec<u8>, headers: Vec<(String, String)>| {
    honest.insert(url(u).to_string(), body.clone());
    w.add(
      u,
      Resp::Module {
        headers,
        content: body,
        final_spec: None,
      },
    );
  };
  // ---- registry packages
  // @s/p embeds module info (cache probe + deferred content load); @s/q does not
  let mut manifests: BTreeMap<String, BTreeMap<String, Option<String>>> = BTreeMap::new();
  let mut manifest_bytes = BTreeMap::new();
  let mut lockfile_checksum_field = BTreeMap::new();
  for (name, embed) in [("@s/p", true), ("@s/q", false)] {
    let files: Vec<(&str, String)> = vec![
      ("/mod.ts", "import './dep.ts';\nexport const m = 1;\n".to_string()),
      ("/dep.ts", "export const d = 2;\n".to_string()),
      ("/data.json", "{\"k\": 1}".to_string()),
      ("/unlisted.ts", "export const u = 3;\n".to_string()),
    ];
    let mut manifest = serde_json::Map::new();
    let mut mf: BTreeMap<String, Option<String>> = BTreeMap::new();
    let manifest_mode = rng.below(8); // 0: unlisted missing from manifest (always), 1: unsupported prefix for dep.ts
    for (path, body) in &files {
      let bytes = bom(rng, body.clone());
      let u = format!("{}{}/1.0.0{}", REG, name, path);
      add(&mut w, &mut honest, &u, bytes.clone(), vec![]);
      if *path == "/unlisted.ts" {
        mf.insert(path.to_string(), None);
        continue;
      }
      if manifest_mode == 1 && *path == "/dep.ts" {
        manifest.insert(path.to_string(), json!({"size": bytes.len(), "checksum": "md5-abcdef"}));
        mf.insert(path.to_string(), Some("UNSUPPORTED".into()));
        continue;
      }
      manifest.insert(
        path.to_string(),
        json!({"size": bytes.len(), "checksum": format!("sha256-{}", sha256_hex(&bytes))}),
      );
      mf.insert(path.to_string(), Some(sha256_hex(&bytes)));
      if rng.chance(1, 3) {
        w.add_cache(
          &u,
          Resp::Module {
            headers: vec![],
            content: bytes.clone(),
            final_spec: None,
          },
        );
      }
    }
    let mut meta = serde_json::Map::new();
    meta.insert(
      "exports".into(),
      json!({".": "./mod.ts", "./data": "./data.json", "./unlisted": "./unlisted.ts", "./dep": "./dep.ts"}),
    );
    meta.insert("manifest".into(), Value::Object(manifest));
    if embed {
      meta.insert(
        "moduleGraph2".into(),
        json!({
          "/mod.ts": {"dependencies": [{"type": "static", "kind": "import", "specifier": "./dep.ts", "specifierRange": [[0, 7], [0, 17]]}]},
          "/dep.ts": {},
          "/unlisted.ts": {},
        }),
      );
    }
    if rng.chance(1, 4) {
      let c = format!("{:064x}", rng.next());
      meta.insert("lockfileChecksum".into(), json!(c));
      lockfile_checksum_field.insert(format!("{}@1.0.0", name), c);
    }
    let mb = Value::Object(meta).to_string().into_bytes();
    let mu = format!("{}{}/1.0.0_meta.json", REG, name);
    add(&mut w, &mut honest, &mu, mb.clone(), vec![]);
    if rng.chance(1, 3) {
      w.add_cache(
        &mu,
        Resp::Module {
          headers: vec![],
          content: mb.clone(),
          final_spec: None,
        },
      );
    }
    manifest_bytes.insert(format!("{}@1.0.0", name), mb);
    manifests.insert(format!("{}@1.0.0", name), mf);
    add(
      &mut w,
      &mut honest,
      &format!("{}{}/meta.json", REG, name),
      json!({"versions": {"1.0.0": {}}}).to_string().into_bytes(),
      vec![],
    );
  }
  // ---- app modules
  let mut main = String::new();
  let mut paths_used = vec![];
  let mut pick = |rng: &mut Rng, label: &str, line: &str, main: &mut String, used: &mut Vec<String>| {
    if rng.chance(2, 3) {
      main.push_str(line);
      main.push('\n');
      used.push(label.to_string());
    }
  };
  pick(rng, "static", "import './a.ts';", &mut main, &mut paths_used);
  pick(rng, "dynamic", "await import('./b.ts');", &mut main, &mut paths_used);
  pick(rng, "asset-text", "import t from './c.txt' with { type: 'text' };", &mut main, &mut paths_used);
  pick(rng, "asset-bytes", "import y from './c.bin' with { type: 'bytes' };", &mut main, &mut paths_used);
  pick(rng, "dynamic-asset", "await import('./c2.txt', { with: { type: 'text' } });", &mut main, &mut paths_used);
  pick(rng, "types-dep", "import './e.js';", &mut main, &mut paths_used);
  pick(rng, "redirect-target", "import './r.ts';", &mut main, &mut paths_used);
  pick(rng, "asset-redirect", "import rb from './rb.bin' with { type: 'bytes' };", &mut main, &mut paths_used);
  pick(rng, "http-scheme", "import 'http://h.test/g.ts';", &mut main, &mut paths_used);
  pick(rng, "declaration", "import type {} from './h.d.ts';", &mut main, &mut paths_used);
  pick(rng, "json", "import j from './j.json' with { type: 'json' };", &mut main, &mut paths_used);
  pick(rng, "charset-utf16", "import './u16.ts';", &mut main, &mut paths_used);
  pick(rng, "jsr-embedded", "import 'jsr:@s/p@1';", &mut main, &mut paths_used);
  pick(rng, "jsr-plain", "import 'jsr:@s/q@1';", &mut main, &mut paths_used);
  pick(rng, "jsr-dynamic", "await import('jsr:@s/q@1/dep');", &mut main, &mut paths_used);
  pick(rng, "jsr-json", "import d from 'jsr:@s/p@1/data' with { type: 'json' };", &mut main, &mut paths_used);
  pick(rng, "jsr-unlisted", "import 'jsr:@s/q@1/unlisted';", &mut main, &mut paths_used);
  pick(rng, "https-into-registry", "import 'https://jsr.io/@s/q/1.0.0/dep.ts';", &mut main, &mut paths_used);
  pick(rng, "https-into-registry-embedded", "import 'https://jsr.io/@s/p/1.0.0/dep.ts';", &mut main, &mut paths_used);
  pick(rng, "jsr-asset", "import tt from 'jsr:@s/q@1/dep' with { type: 'text' };", &mut main, &mut paths_used);
  main.push_str("export const main = 1;\n");
  let root_is_remote = rng.chance(3, 4);
  let main_url = if root_is_remote { format!("{}main.ts", base) } else { "file:///main.ts".to_string() };
  if !root_is_remote {
    main = main.replace("'./", "'https://h.test/");
  }
  add(&mut w, &mut honest, &main_url, main.clone().into_bytes(), vec![]);
  let a_body = bom(rng, "export const a = 1;\n//# sourceMappingURL=a.js.map".to_string());
  add(&mut w, &mut honest, &format!("{}a.ts", base), a_body, vec![]);
  add(&mut w, &mut honest, &format!("{}a.js.map", base), b"{\"version\":3}".to_vec(), vec![]);
  add(&mut w, &mut honest, &format!("{}b.ts", base), bom(rng, "import './a.ts'; export const b = 1;\n".into()), vec![]);
  add(&mut w, &mut honest, &format!("{}c.txt", base), b"some text".to_vec(), vec![]);
  add(&mut w, &mut honest, &format!("{}c2.txt", base), b"more text".to_vec(), vec![]);
  add(&mut w, &mut honest, &format!("{}c.bin", base), vec![0, 159, 146, 150], vec![]);
  add(
    &mut w,
    &mut honest,
    &format!("{}e.js", base),
    b"export const e = 1;".to_vec(),
    vec![("x-typescript-types".into(), "./e.d.ts".into())],
  );
  add(&mut w, &mut honest, &format!("{}e.d.ts", base), b"export declare const e: number;".to_vec(), vec![]);
  w.add(&format!("{}r.ts", base), Resp::Redirect(format!("{}f.ts", base)));
  // an asset URL that redirects (to another asset)
  w.add(&format!("{}rb.bin", base), Resp::Redirect(format!("{}c.bin", base)));
  add(&mut w, &mut honest, &format!("{}f.ts", base), bom(rng, "export const f = 1;\n".into()), vec![]);
  add(&mut w, &mut honest, "http://h.test/g.ts", b"export const g = 1;".to_vec(), vec![]);
  add(&mut w, &mut honest, &format!("{}h.d.ts", base), b"export {};".to_vec(), vec![]);
  add(&mut w, &mut honest, &format!("{}j.json", base), b"{\"j\": true}".to_vec(), vec![]);
  add(
    &mut w,
    &mut honest,
    &format!("{}u16.ts", base),
    "export const u = 1;".encode_utf16().flat_map(|c| c.to_le_bytes()).collect(),
    vec![("content-type".into(), "application/typescript; charset=utf-16le".into())],
  );
  // ---- lockfile
  let with_locker = rng.chance(4, 5);
  let mut lock_remote = BTreeMap::new();
  let mut lock_pkg = BTreeMap::new();
  if with_locker {
    for (u, bytes) in &honest {
      if u.starts_with(REG) || u.starts_with("file:") {
        continue;
      }
      match rng.below(6) {
        0 | 1 => {
          lock_remote.insert(u.clone(), sha256_hex(bytes));
        }
        2 => {
          lock_remote.insert(u.clone(), format!("{:064x}", rng.next()));
        }
        _ => {}
      }
    }
    // a lockfile entry for the redirecting URL itself
    if rng.chance(1, 3) {
      lock_remote.insert(format!("{}r.ts", base), format!("{:064x}", rng.next()));
    }
    if rng.chance(1, 3) {
      lock_remote.insert(format!("{}rb.bin", base), format!("{:064x}", rng.next()));
    }
    for (nv, mb) in &manifest_bytes {
      match rng.below(5) {
        0 | 1 => {
          let c = lockfile_checksum_field.get(nv).cloned().unwrap_or_else(|| sha256_hex(mb));
          // the loader verifies against the served bytes, so a lockfileChecksum
          // field value would never verify; use the byte hash for "matching"
          let _ = c;
          lock_pkg.insert(nv.clone(), sha256_hex(mb));
        }
        2 => {
          lock_pkg.insert(nv.clone(), format!("{:064x}", rng.next()));
        }
        _ => {}
      }
    }
  }
  // ---- tampering
  let tampered = if rng.chance(1, 2) {
    let cands: Vec<&String> = honest
      .keys()
      .filter(|u| !u.ends_with("/meta.json") && **u != url(&main_url).to_string())
      .collect();
    Some((*rng.pick(&cands)).clone())
  } else {
    None
  };
  let prefer_cached = rng.chance(1, 5);
  let desc = json!({
    "paths": paths_used, "root": main_url, "with_locker": with_locker,
    "lock_remote": lock_remote, "lock_pkg": lock_pkg, "tampered": tampered, "prefer_cached": prefer_cached,
    "main_source": main,
  });
  CWorld {
    world: w,
    roots: vec![main_url],
    honest,
    lock_remote,
    lock_pkg,
    manifests,
    manifest_bytes,
    lockfile_checksum_field,
    tampered,
    with_locker,
    prefer_cached,
    desc,
  }
}

/// known(u) from the monitor's own data (never from deno_graph)
fn known(c: &CWorld, u: &str) -> Option<String> {
  if let Some(rest) = u.strip_prefix(REG) {
    if rest.ends_with("/meta.json") {
      return None;
    }
    if let Some(v) = rest.strip_suffix("_meta.json") {
      // @s/p/1.0.0
      let mut parts = v.rsplitn(2, '/');
      let version = parts.next()?;
      let name = parts.next()?;
      return c.lock_pkg.get(&format!("{}@{}", name, version)).cloned();
    }
    // file of a package
    let mut it = rest.splitn(4, '/');
    let scope = it.next()?;
    let name = it.next()?;
    let version = it.next()?;
    let path = format!("/{}", it.next()?);
    let m = c.manifests.get(&format!("{}/{}@{}", scope, name, version))?;
    return match m.get(&path) {
      Some(Some(h)) => Some(h.clone()),
      _ => Some("package-manifest-missing-checksum".to_string()),
    };
  }
  c.lock_remote.get(u).cloned()
}

fn served_hash(answer: &str) -> Option<String> {
  // "module:<final>:<sha256>"
  answer.strip_prefix("module:").and_then(|r| r.rsplit(':').next()).map(|s| s.to_string())
}

fn case(i: usize, seed: u64, acc: &mut Acc) {
  let mut rng = Rng::new(seed).fork(i as u64 ^ 0xC05);
  let c = gen_cworld(&mut rng);
  let mut loader = ScriptedLoader::new(&c.world);
  if let Some(t) = &c.tampered {
    let mut bytes = c.honest[t].clone();
    bytes.extend(b"\n/* tampered */");
    loader.tamper.insert(t.clone(), bytes);
    loader.reload_is_honest = rng.coin();
  }
  loader.native_ensure_cached = true;
  let mut locker = RecLocker {
    remote: c.lock_remote.clone(),
    pkg: c.lock_pkg.clone(),
    events: vec![],
  };
  let cfg = BuildCfg {
    kind: *rng.pick(&[GraphKind::All, GraphKind::CodeOnly]),
    unstable_text: true,
    unstable_bytes: true,
    prefer_cached_jsr: c.prefer_cached,
    ..Default::default()
  };
  let mut graph = ModuleGraph::new(cfg.kind);
  let ctx = json!({"case": c.desc, "kind": format!("{:?}", cfg.kind), "reload_is_honest": loader.reload_is_honest});
  acc.eval();
  let r = catch(|| {
    run_build(
      &mut graph,
      &c.roots,
      &[],
      &loader,
      &cfg,
      if c.with_locker { Some(&mut locker) } else { None },
      Exec::Inline,
      None,
    );
  });
  if let Err(p) = r {
    acc.violation(format!("panic/{}", p.signature()), p.message.clone(), ctx);
    return;
  }
  let log = loader.take_log();
  let any_known = log.iter().any(|e| known(&c, &e.specifier).is_some());
  if any_known {
    acc.nontrivial(hash64(&c.desc.to_string()));
  }
  for p in c.desc["paths"].as_array().unwrap() {
    acc.count(&format!("path:{}", p.as_str().unwrap()));
  }
  if c.tampered.is_some() {
    acc.count("tampered_worlds");
  }
  if i < 2 {
    acc.sample(json!({"case": c.desc, "log": log.iter().map(|e| e.to_json()).collect::<Vec<_>>(), "locker_events": format!("{:?}", locker.events)}));
  }
  let w = |d: Value| {
    json!({"ctx": ctx, "detail": d,
      "log": log.iter().map(|e| format!("{}{} {} checksum={:?} -> {}", if e.ensure_cached { "ensure_cached " } else { "" }, e.cache_setting, e.specifier, e.checksum.as_ref().map(|c| &c[..c.len().min(12)]), e.answer.chars().take(70).collect::<String>())).collect::<Vec<_>>()})
  };
  // ---- K1 presentation
  // version manifests answered so far (an https URL into the registry must
  // wait for its manifest)
  let mut manifests_answered: BTreeSet<String> = BTreeSet::new();
  for (idx, e) in log.iter().enumerate() {
    let k = known(&c, &e.specifier);
    if e.specifier.starts_with(REG) && e.specifier.ends_with("_meta.json") {
      manifests_answered.insert(e.specifier.clone());
    }
    let is_probe = c.prefer_cached
      && e.cache_setting == "only"
      && e.specifier.ends_with("_meta.json");
    if is_probe {
      acc.count("exempt:prefer_cached_existence_probe");
      continue;
    }
    acc.count("load_calls_checked");
    let path_kind = if e.ensure_cached {
      "ensure_cached"
    } else if e.cache_setting == "only" {
      "cache-probe"
    } else if e.cache_setting == "reload" {
      "reload"
    } else if e.in_dynamic_branch {
      "load-dynamic"
    } else {
      "load"
    };
    let res_kind = if e.specifier.starts_with(REG) {
      if e.specifier.ends_with("_meta.json") { "version-manifest" } else if e.specifier.ends_with("/meta.json") { "package-meta" } else { "registry-file" }
    } else {
      "remote"
    };
    match (&k, &e.checksum) {
      (Some(k), Some(p)) if k == p => {
        acc.count("checksums_presented");
      }
      (Some(k), Some(p)) if k == "UNSUPPORTED" => {
        let _ = p;
      }
      (Some(k), got) => {
        if k == "UNSUPPORTED" {
          // must not be loaded at all
          acc.violation(
            "K1/unsupported-manifest-checksum-loaded",
            format!("{} loaded although its manifest checksum has an unsupported prefix", e.specifier),
            w(json!({"event": idx})),
          );
        } else {
          acc.violation(
            format!(
              "K1/checksum-{}/{}/{}",
              if got.is_none() { "not-presented" } else { "wrong" },
              res_kind,
              path_kind
            ),
            format!(
              "call #{} for {} presented {:?}, known checksum {}",
              idx, e.specifier, got, k
            ),
            w(json!({"event": idx})),
          );
        }
      }
      (None, Some(p)) => {
        acc.violation(
          format!("K1/checksum-invented/{}/{}", res_kind, path_kind),
          format!("call #{} for {} presented {} but none is known", idx, e.specifier, p),
          w(json!({"event": idx})),
        );
      }
      (None, None) => {}
    }
    if res_kind == "registry-file" {
      // its version manifest must have been answered before
      let rest = e.specifier.strip_prefix(REG).unwrap();
      let mut it = rest.splitn(4, '/');
      let (s, n, v) = (it.next().unwrap(), it.next().unwrap(), it.next().unwrap());
      let mu = format!("{}{}/{}/{}_meta.json", REG, s, n, v);
      if !manifests_answered.contains(&mu) {
        acc.violation(
          "K1/registry-file-loaded-before-manifest",
          format!("{} loaded before {}", e.specifier, mu),
          w(json!({"event": idx})),
        );
      }
    }
  }
  // ---- K3 retries
  for (idx, e) in log.iter().enumerate() {
    if e.answer != "checksum-mismatch" {
      continue;
    }
    acc.count("checksum_mismatches_observed");
    let later: Vec<&LoadEvent> = log[idx + 1..]
      .iter()
      .filter(|l| l.specifier == e.specifier && l.ensure_cached == e.ensure_cached && l.cache_setting != "only")
      .collect();
    let in_registry = e.specifier.starts_with(REG);
    if e.cache_setting == "reload" || e.cache_setting == "only" {
      continue;
    }
    if in_registry {
      if !later.is_empty() && !e.specifier.ends_with("meta.json") {
        acc.violation(
          "K3/registry-file-retried",
          format!("{} retried after a checksum failure", e.specifier),
          w(json!({"event": idx})),
        );
      }
    } else {
      let reloads: Vec<&&LoadEvent> = later.iter().filter(|l| l.cache_setting == "reload").collect();
      if reloads.len() != 1 {
        acc.violation(
          format!("K3/retry-count-{}", reloads.len().min(2)),
          format!("{}: {} cache-bypassing retries after a checksum failure", e.specifier, reloads.len()),
          w(json!({"event": idx})),
        );
      } else if reloads[0].checksum != e.checksum {
        acc.violation(
          "K3/retry-without-same-checksum",
          format!("{}", e.specifier),
          w(json!({"event": idx})),
        );
      }
    }
  }
  // ---- K2 admission (end state)
  let final_served: BTreeMap<String, String> = log
    .iter()
    .filter_map(|e| served_hash(&e.answer).map(|h| (e.specifier.clone(), h)))
    .collect();
  for m in graph.modules() {
    let spec = m.specifier().to_string();
    let Some(k) = known(&c, &spec) else { continue };
    if k == "package-manifest-missing-checksum" || k == "UNSUPPORTED" {
      if matches!(m, Module::Js(_) | Module::Json(_)) {
        acc.violation(
          format!("K2/admitted-without-manifest-checksum/{}", k),
          format!("{} is a module although the manifest has no usable checksum for it", spec),
          w(json!({})),
        );
      }
      continue;
    }
    acc.count("admitted_entries_with_known_checksum");
    if let Some(h) = final_served.get(&spec) {
      if *h != k {
        acc.violation(
          format!(
            "K2/mismatching-content-admitted/{}",
            if spec.starts_with(REG) { "registry-file" } else { "remote" }
          ),
          format!("{} admitted with served sha256 {} but the known checksum is {}", spec, h, k),
          w(json!({})),
        );
      }
    }
    // the stored text must come from bytes hashing to the checksum
    let text_bytes: Option<Vec<u8>> = match m {
      Module::Js(j) => j.source.try_get_original_bytes().map(|b| b.to_vec()),
      Module::Json(j) => j.source.try_get_original_bytes().map(|b| b.to_vec()),
      _ => None,
    };
    if let Some(b) = text_bytes
      && sha256_hex(&b) != k
    {
      acc.violation(
        "K2/stored-bytes-do-not-hash-to-known-checksum",
        format!("{}", spec),
        w(json!({})),
      );
    }
  }
  if let Some(t) = &c.tampered
    && let Some(k) = known(&c, t)
    && k.len() == 64
    && sha256_hex(&c.honest[t]) == k
    && !loader.reload_is_honest
  {
    // honest checksum known, tampered bytes on every path: never a module
    if let Ok(Some(m)) = graph.try_get(&url(t))
      && matches!(m, Module::Js(_) | Module::Json(_) | Module::External(_))
      && log.iter().any(|e| e.specifier == *t)
    {
      acc.violation(
        format!(
          "K2/tampered-content-admitted/{}",
          if t.starts_with(REG) { "registry" } else { "remote" }
        ),
        format!("{} was tampered with on every path but ended as {:?}", t, m.specifier()),
        w(json!({})),
      );
    }
    acc.count("tamper_with_known_checksum");
  }
  // ---- K4 redirects
  for (idx, e) in log.iter().enumerate() {
    if let Some(target) = e.answer.strip_prefix("redirect:")
      && let Some(_k) = known(&c, &e.specifier)
    {
      acc.count("checksummed_redirects");
      match graph.try_get(&url(&e.specifier)) {
        Err(err) if err.to_string().contains("ntegrity") || err.to_string().contains("Redirect") => {}
        other => acc.violation(
          "K4/checksummed-url-redirected-but-no-integrity-error",
          format!("{} -> {}: entry {:?}", e.specifier, target, other.map(|m| m.map(|m| m.specifier().to_string())).map_err(|e| e.to_string())),
          w(json!({"event": idx})),
        ),
      }
    }
  }
  // ---- K5 / K6 recording
  if c.with_locker {
    let mut remote_sets: BTreeMap<String, Vec<String>> = BTreeMap::new();
    let mut pkg_sets: BTreeMap<String, Vec<String>> = BTreeMap::new();
    for ev in &locker.events {
      match ev {
        LockEvent::SetRemote(u, h) => remote_sets.entry(u.clone()).or_default().push(h.clone()),
        LockEvent::SetPkg(nv, h) => pkg_sets.entry(nv.clone()).or_default().push(h.clone()),
      }
    }
    for (u, hs) in &remote_sets {
      acc.count("lockfile_remote_writes");
      if c.lock_remote.contains_key(u) {
        acc.violation("K6/existing-remote-entry-overwritten", u.clone(), w(json!({})));
      }
      if hs.len() != 1 {
        acc.violation("K5/remote-written-more-than-once", format!("{} {:?}", u, hs), w(json!({})));
      }
      let uu = url(u);
      if !matches!(uu.scheme(), "http" | "https") || u.starts_with(REG) {
        acc.violation("K5/write-for-non-remote-or-registry-url", u.clone(), w(json!({})));
      }
      if u.ends_with(".d.ts") {
        acc.violation("K5/write-for-declaration-file", u.clone(), w(json!({})));
      }
      match final_served.get(u) {
        Some(h) if hs.contains(h) => {}
        Some(h) => {
          let has_bom = c.honest.get(u).is_some_and(|b| b.starts_with(&[0xEF, 0xBB, 0xBF]));
          acc.violation(
            format!(
              "K5/recorded-checksum-is-not-of-the-bytes-used/{}",
              if has_bom {
                "utf8-bom"
              } else if u.ends_with("u16.ts") {
                "non-utf8-charset"
              } else {
                "other"
              }
            ),
            format!("{}: recorded {:?}, sha256 of the bytes served {}", u, hs, h),
            w(json!({})),
          );
        }
        None => acc.violation("K5/write-for-url-never-served", u.clone(), w(json!({}))),
      }
    }
    // every newly seen remote non-declaration module is recorded
    for m in graph.modules() {
      let u = m.specifier().to_string();
      let uu = m.specifier();
      if !matches!(uu.scheme(), "http" | "https") || u.starts_with(REG) {
        continue;
      }
      if !matches!(m, Module::Js(_) | Module::Json(_)) {
        continue;
      }
      if m.media_type().is_declaration() || c.lock_remote.contains_key(&u) {
        continue;
      }
      if !remote_sets.contains_key(&u) {
        acc.violation(
          format!("K5/new-remote-module-not-recorded/{}", uu.scheme()),
          u.clone(),
          w(json!({})),
        );
      }
    }
    for (nv, hs) in &pkg_sets {
      acc.count("lockfile_manifest_writes");
      if c.lock_pkg.contains_key(nv) {
        acc.violation("K6/existing-manifest-entry-overwritten", nv.clone(), w(json!({})));
      }
      let mut d = hs.clone();
      d.sort();
      d.dedup();
      if d.len() != 1 {
        acc.violation("K5/manifest-written-with-different-values", format!("{} {:?}", nv, hs), w(json!({})));
      }
      let expect = c
        .lockfile_checksum_field
        .get(nv)
        .cloned()
        .unwrap_or_else(|| {
          // the bytes actually served for the manifest
          final_served
            .get(&format!("{}{}_meta.json", REG, nv.replacen('@', "/", 2).replacen('/', "@", 1)))
            .cloned()
            .unwrap_or_else(|| sha256_hex(&c.manifest_bytes[nv]))
        });
      let tampered_manifest = c.tampered.as_ref().is_some_and(|t| t.ends_with("_meta.json"));
      if !hs.contains(&expect) && !tampered_manifest {
        acc.violation(
          "K5/manifest-checksum-not-of-the-bytes-used",
          format!("{}: recorded {:?} expected {}", nv, hs, expect),
          w(json!({})),
        );
      }
    }
    // every version manifest the build really loaded (not a cache-only
    // existence probe) and that has no lockfile entry is recorded - also when
    // the package is reached only through https URLs into the registry and
    // the requested file itself fails
    for e in log.iter() {
      if !e.specifier.ends_with("_meta.json") || !e.answer.starts_with("module:") || e.cache_setting == "only" {
        continue;
      }
      if c.tampered.as_deref() == Some(e.specifier.as_str()) {
        continue;
      }
      // https://jsr.io/@scope/name/1.0.0_meta.json
      let rest = e.specifier.trim_start_matches(REG);
      let parts: Vec<&str> = rest.split('/').collect();
      if parts.len() != 3 {
        continue;
      }
      let nvs = format!("{}/{}@{}", parts[0], parts[1], parts[2].trim_end_matches("_meta.json"));
      // ... provided the build went on to request a file of that version
      // (a manifest that lists no usable checksum for the requested file is
      // dropped before anything of the package is used)
      let file_prefix = format!("{}{}/{}/{}/", REG, parts[0], parts[1], parts[2].trim_end_matches("_meta.json"));
      if !log.iter().any(|x| x.specifier.starts_with(&file_prefix)) {
        acc.count("version_manifest_loaded_but_no_file_requested");
        continue;
      }
      acc.count("version_manifest_loads_checked_for_recording");
      if !c.lock_pkg.contains_key(&nvs) && !pkg_sets.contains_key(&nvs) {
        acc.violation("K5/new-manifest-not-recorded/loaded-manifest", nvs, w(json!({})));
      }
    }
    // manifests of packages in the graph without lockfile entry are recorded
    for nv in graph.packages.mappings().values() {
      let nvs = nv.to_string();
      if !c.lock_pkg.contains_key(&nvs) && !pkg_sets.contains_key(&nvs) {
        // only if the manifest was actually loaded successfully
        let mu = format!("{}{}/{}_meta.json", REG, nv.name, nv.version);
        if c.tampered.as_deref() != Some(mu.as_str())
          && log.iter().any(|e| e.specifier == mu && e.answer.starts_with("module:"))
        {
          acc.violation("K5/new-manifest-not-recorded", nvs, w(json!({})));
        }
      }
    }
  }
}

pub fn run(tier: Tier, seed: u64) -> i32 {
  let mut rep = Report::new("C05", tier, seed);
  rep.rule = "case = generated world with a random subset of 18 load paths (static, dynamic, text/bytes assets static and dynamic, source map, types dependency by header, redirect target, http: scheme, declaration file, JSON, \
    jsr package with embedded module info (cache probe + deferred content load) and without, dynamic/JSON/asset/unlisted registry sub-paths, https URLs into both packages), local or remote root, UTF-8 BOMs, cached or uncached registry files, \
    manifests with missing/unsupported checksums, lockfileChecksum fields x lockfile (absent | per entry absent/matching/mismatching, incl. an entry for a redirecting URL) x tampering of one resource on every path (optionally honest on cache-bypassing reload) x prefer_cached mode. \
    The loader verifies whatever checksum it is handed. Checker over the load/locker event log and the final graph: K1 presentation on every content-bearing call, K2 admission (served bytes hash to the known checksum; tampered content never a module), \
    K3 exactly one cache-bypassing retry for non-registry URLs and none for registry files, K4 checksummed URL that redirects ends as integrity error, K5 recording (exactly once, sha256 of the bytes served / lockfileChecksum, not for declaration files or registry/local URLs), K6 no overwrite. \
    non-trivial = at least one resource with a known checksum was loaded; distinct by world description"
    .into();
  rep.assumptions = vec![
    "existence probes of prefer_cached_jsr_versions (cache-only loads of <v>_meta.json whose content is discarded) are exempt from K1 and counted".into(),
    "known(u) is computed from the lockfile and manifests the harness wrote".into(),
  ];
  rep.min_nontrivial = tier.pick(1000, 50_000);
  for p in ["static", "dynamic", "asset-text", "asset-bytes", "dynamic-asset", "types-dep", "redirect-target", "http-scheme", "jsr-embedded", "jsr-plain", "jsr-dynamic", "jsr-unlisted", "https-into-registry", "jsr-asset"] {
    rep.floor(&format!("path:{}", p), 200);
  }
  rep.floor("tamper_with_known_checksum", 100);
  rep.floor("checksum_mismatches_observed", 100);
  let n = tier.pick(30000, 7500000);
  let acc = par_run(n, |i, acc| case(i, seed, acc));
  rep.finish(acc)
}
