// Registry worlds (JSR): generator, renderer, bookkeeping model; graph-level
// monitors of C06 and C07. Reused by C03/C04/C05/C13.
#![allow(dead_code)]

use crate::c06::*;
use crate::common::*;
use crate::world::*;
use deno_graph::GraphKind;
use deno_graph::ModuleGraph;
use deno_graph::packages::JsrVersionResolver;
use deno_graph::packages::NewestDependencyDate;
use deno_graph::packages::NewestDependencyDateOptions;
use deno_graph::source::JsrUrlProvider;
use deno_semver::Version;
use deno_semver::package::PackageNv;
use deno_semver::package::PackageReq;
use serde_json::Value;
use serde_json::json;
use std::collections::BTreeMap;
use std::collections::BTreeSet;
use std::collections::VecDeque;

pub const REGISTRY: &str = "https://jsr.io/";

#[derive(Clone, Debug, PartialEq, Eq, Hash)]
pub enum Imp {
  /// import "<text>" (static)
  Static(String),
  /// await import("<text>")
  Dynamic(String),
  /// import t from "<text>" with { type: "text" }   (C13 shortcut slice only)
  Text(String),
  /// import j from "<text>" with { type: "json" }   (C13 shortcut slice only)
  JsonAttr(String),
  /// `// @ts-types="<types>"` on `import * as i from "<code>"`   (C13 shortcut slice only)
  TsTypes(String, String),
}

impl Imp {
  pub fn text(&self) -> &str {
    match self {
      Imp::Static(t) | Imp::Dynamic(t) | Imp::Text(t) | Imp::JsonAttr(t) | Imp::TsTypes(t, _) => t,
    }
  }
}

#[derive(Clone, Debug, PartialEq, Eq, Hash)]
pub struct RFile {
  /// path inside the package, e.g. "/mod.ts"
  pub path: String,
  pub imports: Vec<Imp>,
}

#[derive(Clone, Debug, PartialEq, Eq, Hash)]
pub enum Exports {
  /// "exports": "./mod.ts"
  Str(String),
  /// "exports": { ".": "./mod.ts", "./sub": "./sub.ts" }
  Map(Vec<(String, String)>),
  /// "exports": { ".": 5 }  (non-string value)
  NonString,
  Absent,
}

#[derive(Clone, Debug, PartialEq, Eq, Hash)]
pub struct RVer {
  pub version: String,
  pub yanked: bool,
  pub date: u8, // 0 absent 1 before 2 after
  pub exports: Exports,
  pub files: Vec<RFile>,
  /// embed moduleGraph2 computed by the real analyser (C13) — filled by caller
  pub module_graph2: Option<String>,
  pub module_graph1: Option<String>,
}

#[derive(Clone, Debug, PartialEq, Eq, Hash)]
pub struct RPkg {
  pub name: String,
  pub versions: Vec<RVer>,
}

#[derive(Clone, Debug, PartialEq, Eq, Hash, Default)]
pub struct RegWorld {
  pub pkgs: Vec<RPkg>,
  /// non-registry modules: (url, imports)
  pub app: Vec<(String, Vec<Imp>)>,
  pub roots: Vec<String>,
  /// lockfile-seeded selections (req -> version)
  pub lock_selected: Vec<(String, String)>,
  pub cutoff: bool,
  /// package names excluded from the cutoff (exact)
  pub excluded: Vec<String>,
  /// versions added to meta.json only for cache-busting reloads: (pkg, RVer)
  pub reload_only_versions: Vec<(String, RVer)>,
  /// prefer_cached_jsr_versions mode and the version manifests in the cache
  pub prefer_cached: bool,
  pub cached_manifests: Vec<(String, String)>,
  /// build without an npm resolver (npm: specifiers go to the loader)
  pub no_npm_resolver: bool,
}

pub fn render_imports(imports: &[Imp]) -> String {
  let mut s = String::new();
  for (i, imp) in imports.iter().enumerate() {
    match imp {
      Imp::Static(t) => s.push_str(&format!("import * as i{} from \"{}\";\n", i, t)),
      Imp::Dynamic(t) => s.push_str(&format!("const d{} = await import(\"{}\");\n", i, t)),
      Imp::Text(t) => s.push_str(&format!("import t{} from \"{}\" with {{ type: \"text\" }};\n", i, t)),
      Imp::JsonAttr(t) => s.push_str(&format!("import j{} from \"{}\" with {{ type: \"json\" }};\n", i, t)),
      Imp::TsTypes(t, ty) => s.push_str(&format!("// @ts-types=\"{}\"\nimport * as i{} from \"{}\";\n", ty, i, t)),
    }
  }
  s.push_str("export const value: number = 1;\n");
  s
}

/// bytes served for a package file: source text, or a WebAssembly binary
/// whose import section names the file's imports
pub fn file_bytes(f: &RFile) -> Vec<u8> {
  if f.path.ends_with(".wasm") {
    crate::r#gen::render_wasm(&f.imports.iter().map(|i| i.text().to_string()).collect::<Vec<_>>())
  } else {
    render_imports(&f.imports).into_bytes()
  }
}

pub fn pkg_file_url(name: &str, version: &str, path: &str) -> String {
  format!("{}{}/{}{}", REGISTRY, name, version, path)
}

pub fn version_meta_json(name: &str, v: &RVer) -> Value {
  let mut manifest = serde_json::Map::new();
  for f in &v.files {
    let body = file_bytes(f);
    manifest.insert(
      f.path.clone(),
      json!({"size": body.len(), "checksum": format!("sha256-{}", sha256_hex(&body))}),
    );
  }
  let mut o = serde_json::Map::new();
  match &v.exports {
    Exports::Str(s) => {
      o.insert("exports".into(), json!(s));
    }
    Exports::Map(m) => {
      o.insert(
        "exports".into(),
        Value::Object(m.iter().map(|(k, v)| (k.clone(), json!(v))).collect()),
      );
    }
    Exports::NonString => {
      o.insert("exports".into(), json!({".": 5, "./sub": ["x"]}));
    }
    Exports::Absent => {}
  }
  o.insert("manifest".into(), Value::Object(manifest));
  if let Some(mg) = &v.module_graph2 {
    o.insert("moduleGraph2".into(), serde_json::from_str(mg).unwrap());
  }
  if let Some(mg) = &v.module_graph1 {
    o.insert("moduleGraph1".into(), serde_json::from_str(mg).unwrap());
  }
  let _ = name;
  Value::Object(o)
}

pub fn pkg_meta_json(p: &RPkg, extra: &[&RVer]) -> Value {
  let mut versions = serde_json::Map::new();
  for v in p.versions.iter().chain(extra.iter().cloned()) {
    let mut o = serde_json::Map::new();
    if v.yanked {
      o.insert("yanked".into(), json!(true));
    }
    let d = match v.date {
      1 => date_of(DateClass::Before),
      2 => date_of(DateClass::After),
      _ => None,
    };
    if let Some(d) = d {
      o.insert("createdAt".into(), serde_json::to_value(d).unwrap());
    }
    versions.insert(v.version.clone(), Value::Object(o));
  }
  json!({"versions": versions})
}

impl RegWorld {
  pub fn to_world(&self) -> World {
    let mut w = World::new();
    for (u, imports) in &self.app {
      w.add_text(u, &render_imports(imports));
    }
    for p in &self.pkgs {
      let extra: Vec<&RVer> = self
        .reload_only_versions
        .iter()
        .filter(|(n, _)| n == &p.name)
        .map(|(_, v)| v)
        .collect();
      w.add_text(
        &format!("{}{}/meta.json", REGISTRY, p.name),
        &pkg_meta_json(p, &[]).to_string(),
      );
      if !extra.is_empty() {
        w.reload.insert(
          url(&format!("{}{}/meta.json", REGISTRY, p.name)).to_string(),
          Resp::text(&pkg_meta_json(p, &extra).to_string()),
        );
      }
      for v in p.versions.iter().chain(extra.iter().cloned()) {
        w.add_text(
          &format!("{}{}/{}_meta.json", REGISTRY, p.name, v.version),
          &version_meta_json(&p.name, v).to_string(),
        );
        if self
          .cached_manifests
          .iter()
          .any(|(n, ver)| n == &p.name && ver == &v.version)
        {
          w.add_cache(
            &format!("{}{}/{}_meta.json", REGISTRY, p.name, v.version),
            Resp::text(&version_meta_json(&p.name, v).to_string()),
          );
        }
        for f in &v.files {
          w.add(
            &pkg_file_url(&p.name, &v.version, &f.path),
            Resp::Module { headers: vec![], content: file_bytes(f), final_spec: None },
          );
        }
      }
    }
    w
  }

  pub fn to_json(&self) -> Value {
    json!({
      "roots": self.roots, "app": self.app.iter().map(|(u, i)| json!({"url": u, "imports": i.iter().map(|x| format!("{:?}", x)).collect::<Vec<_>>()})).collect::<Vec<_>>(),
      "lock_selected": self.lock_selected, "cutoff": self.cutoff, "excluded": self.excluded,
      "prefer_cached": self.prefer_cached, "cached_manifests": self.cached_manifests, "no_npm_resolver": self.no_npm_resolver,
      "reload_only_versions": self.reload_only_versions.iter().map(|(n, v)| format!("{}@{}", n, v.version)).collect::<Vec<_>>(),
      "packages": self.pkgs.iter().map(|p| json!({"name": p.name, "versions": p.versions.iter().map(|v| json!({
        "version": v.version, "yanked": v.yanked, "date": v.date, "exports": format!("{:?}", v.exports),
        "files": v.files.iter().map(|f| json!({"path": f.path, "imports": f.imports.iter().map(|x| format!("{:?}", x)).collect::<Vec<_>>()})).collect::<Vec<_>>(),
      })).collect::<Vec<_>>()})).collect::<Vec<_>>(),
    })
  }

  pub fn version_resolver(&self) -> JsrVersionResolver {
    let mut o = NewestDependencyDateOptions::default();
    if self.cutoff {
      o.date = Some(NewestDependencyDate(cutoff_date()));
    }
    for e in &self.excluded {
      o.exclude_jsr_pkgs.insert(e.as_str().into());
    }
    JsrVersionResolver {
      newest_dependency_date_options: o,
    }
  }
}

// ------------------------------------------------------------ bookkeeping model

#[derive(Clone, Debug, Default, PartialEq, Eq)]
pub struct RegExpect {
  /// requirement -> name@version
  pub mappings: BTreeMap<PackageReq, String>,
  /// jsr specifier -> registry url, or Err(kind)
  pub outcomes: BTreeMap<String, Result<String, String>>,
  pub used_yanked: BTreeSet<String>,
  /// nv -> export key -> path
  pub exports_used: BTreeMap<String, BTreeMap<String, String>>,
  /// nv -> set of "jsr:@x/y@req" / "npm:z@req"
  pub deps: BTreeMap<String, BTreeSet<(String, PackageReq)>>,
  pub restarted: bool,
  pub declined: Option<String>,
}

fn parse_jsr(text: &str) -> Option<(PackageReq, String, Option<String>)> {
  // jsr:@s/a@^1/sub  -> (req, export key, tag?)
  let r = deno_semver::jsr::JsrPackageReqReference::from_specifier(&url::Url::parse(text).ok()?).ok()?;
  let key = match r.sub_path() {
    Some(p) if !p.is_empty() => format!("./{}", p),
    _ => ".".to_string(),
  };
  let tag = match r.req().version_req.inner() {
    deno_semver::RangeSetOrTag::Tag(t) => Some(t.to_string()),
    _ => None,
  };
  Some((r.req().clone(), key, tag))
}

struct Sim<'a> {
  w: &'a RegWorld,
  use_reload_versions: bool,
  selected: BTreeMap<String, Vec<Version>>,
  exp: RegExpect,
  slots: BTreeSet<String>,
  queue: VecDeque<String>,
  pending_jsr: Vec<(String, Option<String>)>, // (specifier text, referrer url)
  dynamic: Vec<(String, String)>,             // (resolved text, referrer url)
  in_dynamic: bool,
}

fn nv_of_url(u: &str) -> Option<(String, String)> {
  let rest = u.strip_prefix(REGISTRY)?;
  let mut parts = rest.split('/');
  let scope = parts.next()?;
  let name = parts.next()?;
  let version = parts.next()?;
  Version::parse_standard(version).ok()?;
  Some((format!("{}/{}", scope, name), version.to_string()))
}

impl<'a> Sim<'a> {
  fn pkg(&self, name: &str) -> Option<&'a RPkg> {
    self.w.pkgs.iter().find(|p| p.name == name)
  }
  fn versions_of(&self, p: &'a RPkg) -> Vec<&'a RVer> {
    let mut v: Vec<&RVer> = p.versions.iter().collect();
    if self.use_reload_versions {
      v.extend(
        self
          .w
          .reload_only_versions
          .iter()
          .filter(|(n, _)| n == &p.name)
          .map(|(_, v)| v),
      );
    }
    v
  }

  fn imports_of(&self, u: &str) -> Option<Vec<Imp>> {
    if let Some((_, i)) = self.w.app.iter().find(|(a, _)| url(a).as_str() == u) {
      return Some(i.clone());
    }
    let (name, version) = nv_of_url(u)?;
    let p = self.pkg(&name)?;
    let v = self.versions_of(p).into_iter().find(|v| v.version == version)?;
    let path = u.strip_prefix(&format!("{}{}/{}", REGISTRY, name, version))?;
    v.files.iter().find(|f| f.path == path).map(|f| f.imports.clone())
  }

  fn request_text(&mut self, text: &str, referrer: &str, dynamic: bool) {
    if text.starts_with("jsr:") || text.starts_with("npm:") {
      // dependency bookkeeping: attributed to the *referrer's* package
      if let Some((n, v)) = nv_of_url(referrer) {
        let dep: Option<(String, PackageReq)> = if text.starts_with("jsr:") {
          parse_jsr(text).map(|(r, _, _)| ("jsr".to_string(), r))
        } else {
          deno_semver::npm::NpmPackageReqReference::from_specifier(&url(text))
            .ok()
            .map(|r| ("npm".to_string(), r.req().clone()))
        };
        if let Some(dep) = dep {
          self.exp.deps.entry(format!("{}@{}", n, v)).or_default().insert(dep);
        }
      }
    }
    if dynamic && !self.in_dynamic {
      self.dynamic.push((text.to_string(), referrer.to_string()));
      return;
    }
    if text.starts_with("npm:") {
      return;
    }
    if text.starts_with("jsr:") {
      let key = url(text).to_string();
      if self.exp.outcomes.contains_key(&key) {
        return;
      }
      self.pending_jsr.push((text.to_string(), Some(referrer.to_string())));
      return;
    }
    let u = match url::Url::parse(text) {
      Ok(u) => u.to_string(),
      Err(_) => url(referrer).join(text).unwrap().to_string(),
    };
    self.request_url(u);
  }

  fn request_url(&mut self, u: String) {
    if self.slots.insert(u.clone()) {
      self.queue.push_back(u);
    }
  }

  fn resolve_jsr(&mut self, text: &str) {
    let key = url(text).to_string();
    // the same specifier queued twice in one batch is resolved twice (the
    // second resolution may unify onto a version selected in between)
    let Some((req, export_key, tag)) = parse_jsr(text) else {
      self.exp.outcomes.insert(key, Err("format".into()));
      return;
    };
    if tag.is_some() {
      self.exp.outcomes.insert(key, Err("tag".into()));
      return;
    }
    let Some(p) = self.pkg(req.name.as_str()) else {
      self.exp.outcomes.insert(key, Err("package-not-found".into()));
      return;
    };
    let versions: Vec<Version> = UNIVERSE_ALL(self, p);
    let regs: Vec<&RVer> = self.versions_of(p);
    let case = SelCase {
      registry: regs
        .iter()
        .enumerate()
        .map(|(i, v)| RegVersion {
          v: i,
          yanked: v.yanked,
          date: match v.date {
            1 => DateClass::Before,
            2 => DateClass::After,
            _ => DateClass::Absent,
          },
        })
        .collect(),
      req: "",
      selected: vec![],
      cached: vec![],
      cutoff: self.w.cutoff,
      exclusion: if self.w.excluded.iter().any(|e| e == &p.name) { 1 } else { 0 },
    };
    // model_select works on indices into `versions`; extend with the already
    // selected versions that are not in the registry
    let mut all: Vec<Version> = versions.clone();
    let mut selected_idx = vec![];
    for sv in self.selected.get(&p.name).cloned().unwrap_or_default() {
      let idx = match all.iter().position(|v| *v == sv) {
        Some(i) => i,
        None => {
          all.push(sv.clone());
          all.len() - 1
        }
      };
      selected_idx.push(idx);
    }
    let cached_idx: Vec<usize> = if self.w.prefer_cached {
      regs
        .iter()
        .enumerate()
        .filter(|(_, v)| {
          self
            .w
            .cached_manifests
            .iter()
            .any(|(n, ver)| n == &p.name && ver == &v.version)
        })
        .map(|(i, _)| i)
        .collect()
    } else {
      vec![]
    };
    let result = select_with_req(&case, &all, &req, &selected_idx, &cached_idx);
    match result {
      Ok((idx, yanked)) => {
        let version = all[idx].clone();
        let nv = format!("{}@{}", p.name, version);
        let sel = self.selected.entry(p.name.clone()).or_default();
        if !sel.contains(&version) {
          sel.push(version.clone());
        }
        self.exp.mappings.insert(req.clone(), nv.clone());
        if yanked {
          self.exp.used_yanked.insert(nv.clone());
        }
        // version manifest
        let Some(rv) = regs.iter().find(|v| Version::parse_standard(&v.version).unwrap() == version)
        else {
          self.exp.outcomes.insert(key, Err("version-manifest-not-found".into()));
          return;
        };
        let export_path: Option<String> = match &rv.exports {
          Exports::Str(s) => (export_key == ".").then(|| s.clone()),
          Exports::Map(m) => m.iter().find(|(k, _)| *k == export_key).map(|(_, v)| v.clone()),
          _ => None,
        };
        match export_path {
          None => {
            self.exp.outcomes.insert(key, Err("unknown-export".into()));
          }
          Some(path) => {
            self
              .exp
              .exports_used
              .entry(nv.clone())
              .or_default()
              .insert(export_key.clone(), path.clone());
            let base = url(&format!("{}{}/{}/", REGISTRY, p.name, version));
            match base.join(&path) {
              Ok(u) => {
                self.exp.outcomes.insert(key, Ok(u.to_string()));
                self.request_url(u.to_string());
              }
              Err(_) => {
                self.exp.declined = Some("unjoinable export".into());
              }
            }
          }
        }
      }
      Err(excluded_by_date) => {
        self.exp.outcomes.insert(
          key,
          Err(if excluded_by_date {
            "req-not-found-date".into()
          } else {
            "req-not-found".into()
          }),
        );
      }
    }
  }

  fn run(&mut self) {
    for r in &self.w.roots.clone() {
      if r.starts_with("jsr:") {
        self.pending_jsr.push((r.clone(), None));
      } else {
        self.request_url(url(r).to_string());
      }
    }
    let mut guard = 0;
    loop {
      guard += 1;
      if guard > 10_000 {
        self.exp.declined = Some("simulation did not converge".into());
        return;
      }
      while let Some(u) = self.queue.pop_front() {
        if let Some(imports) = self.imports_of(&u) {
          // one dependency per specifier text per module; static wins
          let mut dedup: Vec<Imp> = vec![];
          for imp in imports {
            match dedup.iter().position(|d| d.text() == imp.text()) {
              None => dedup.push(imp),
              Some(i) => {
                if matches!(imp, Imp::Static(_)) {
                  dedup[i] = Imp::Static(imp.text().to_string());
                }
              }
            }
          }
          for imp in dedup {
            let dynamic = matches!(imp, Imp::Dynamic(_));
            self.request_text(imp.text(), &u, dynamic);
          }
        }
      }
      if !self.pending_jsr.is_empty() {
        // one specifier is resolved once per batch ("every specifier being
        // loaded into a single entry")
        let mut seen = BTreeSet::new();
        for (text, _) in std::mem::take(&mut self.pending_jsr) {
          if seen.insert(url(&text).to_string()) {
            self.resolve_jsr(&text);
          }
        }
        continue;
      }
      if !self.in_dynamic && !self.dynamic.is_empty() {
        self.in_dynamic = true;
        for (text, referrer) in std::mem::take(&mut self.dynamic) {
          self.request_text(&text, &referrer, true);
        }
        continue;
      }
      break;
    }
  }
}

#[allow(non_snake_case)]
fn UNIVERSE_ALL(sim: &Sim, p: &RPkg) -> Vec<Version> {
  sim
    .versions_of(p)
    .iter()
    .map(|v| Version::parse_standard(&v.version).unwrap())
    .collect()
}

/// model_select with an explicit requirement and selected set
fn select_with_req(
  c: &SelCase,
  versions: &[Version],
  req: &PackageReq,
  selected: &[usize],
  cached: &[usize],
) -> Result<(usize, bool), bool> {
  let matches = |i: usize| req.version_req.matches(&versions[i]);
  let best = |cands: Vec<usize>| -> Option<usize> {
    cands.into_iter().max_by(|a, b| versions[*a].cmp(&versions[*b]))
  };
  if let Some(b) = best(selected.iter().cloned().filter(|i| matches(*i)).collect()) {
    let y = c.registry.iter().find(|r| r.v == b).map(|r| r.yanked).unwrap_or(false);
    return Ok((b, y));
  }
  let date_applies = c.cutoff && c.exclusion == 0;
  let date_ok = |r: &RegVersion| !date_applies || r.date != DateClass::After;
  if let Some(b) = best(
    c.registry
      .iter()
      .filter(|r| !r.yanked && cached.contains(&r.v) && matches(r.v) && date_ok(r))
      .map(|r| r.v)
      .collect(),
  ) {
    return Ok((b, false));
  }
  if let Some(b) = best(
    c.registry.iter().filter(|r| !r.yanked && matches(r.v) && date_ok(r)).map(|r| r.v).collect(),
  ) {
    return Ok((b, false));
  }
  if let Some(b) = best(
    c.registry.iter().filter(|r| r.yanked && matches(r.v) && date_ok(r)).map(|r| r.v).collect(),
  ) {
    return Ok((b, true));
  }
  Err(c.registry.iter().any(|r| matches(r.v) && !date_ok(r)))
}

pub fn model_registry(w: &RegWorld) -> RegExpect {
  model_registry_opt(w, true)
}

/// `lock_survives_restart = false` models a build that forgets the
/// lockfile-seeded selections when it restarts with cache busting.
pub fn model_registry_opt(w: &RegWorld, lock_survives_restart: bool) -> RegExpect {
  let run = |reload: bool| -> RegExpect {
    let mut sim = Sim {
      w,
      use_reload_versions: reload,
      selected: BTreeMap::new(),
      exp: RegExpect::default(),
      slots: BTreeSet::new(),
      queue: VecDeque::new(),
      pending_jsr: vec![],
      dynamic: vec![],
      in_dynamic: false,
    };
    for (req, ver) in &w.lock_selected {
      if reload && !lock_survives_restart {
        break;
      }
      let r = PackageReq::from_str(req).unwrap();
      let v = Version::parse_standard(ver).unwrap();
      sim.selected.entry(r.name.to_string()).or_default().push(v.clone());
      sim.exp.mappings.insert(r.clone(), format!("{}@{}", r.name, v));
    }
    sim.run();
    sim.exp
  };
  let first = run(false);
  // a failed requirement on a fresh graph restarts the whole build with
  // cache-busting metadata loads
  let failed = first
    .outcomes
    .values()
    .any(|o| matches!(o, Err(k) if k.starts_with("req-not-found")));
  if failed {
    let mut second = run(true);
    second.restarted = true;
    return second;
  }
  first
}

// ------------------------------------------------------------ generator

pub fn gen_reg_world(rng: &mut Rng) -> RegWorld {
  let small = std::env::var("DGV_SMALL").is_ok();
  let n_pkgs = if small { 1 } else { rng.range(1, 4) };
  let names = ["@s/a", "@s/ab", "@s/b", "@t/a"];
  let mut pkgs = vec![];
  let version_pool = ["1.0.0", "1.1.0", "1.2.0", "2.0.0", "0.9.0", "1.3.0-rc.1"];
  for pi in 0..n_pkgs {
    let name = names[pi].to_string();
    let nv = if small { rng.range(1, 2) } else { rng.range(1, 4) };
    let mut vs: Vec<&str> = version_pool.to_vec();
    rng.shuffle(&mut vs);
    vs.truncate(nv);
    let mut versions = vec![];
    for v in vs {
      let exports = match rng.below(10) {
        0 => Exports::Str("./mod.ts".into()),
        1 => Exports::NonString,
        2 => Exports::Absent,
        _ => {
          let mut m = vec![(".".to_string(), "./mod.ts".to_string())];
          if rng.chance(2, 3) {
            m.push(("./sub".to_string(), "./sub.ts".to_string()));
          }
          if rng.chance(1, 4) {
            m.push(("./deep/x".to_string(), "./lib/deep.ts".to_string()));
          }
          Exports::Map(m)
        }
      };
      versions.push(RVer {
        version: v.to_string(),
        yanked: rng.chance(1, 5),
        date: rng.below(3) as u8,
        exports,
        files: vec![],
        module_graph2: None,
        module_graph1: None,
      });
    }
    pkgs.push(RPkg { name, versions });
  }
  // files: imports to other packages by jsr:, npm:, https registry urls, relative
  let reqs = ["1", "^1.0.0", "~1.1.0", "*", "2", "^1.2.0", "1.0.0", "^1.1", "^0.9.0"];
  let pkg_names: Vec<String> = pkgs.iter().map(|p| p.name.clone()).collect();
  let all_nv: Vec<(String, String)> = pkgs
    .iter()
    .flat_map(|p| p.versions.iter().map(|v| (p.name.clone(), v.version.clone())))
    .collect();
  let mk_jsr = |rng: &mut Rng| -> String {
    let n = rng.pick(&pkg_names).clone();
    let r = *rng.pick(&reqs);
    match rng.below(6) {
      0 => format!("jsr:{}@{}/sub", n, r),
      1 => format!("jsr:{}@{}/deep/x", n, r),
      2 => format!("jsr:{}@{}/nope", n, r),
      _ => format!("jsr:{}@{}", n, r),
    }
  };
  for p in pkgs.iter_mut() {
    let pname = p.name.clone();
    for v in p.versions.iter_mut() {
      let mut mk_imports = |rng: &mut Rng, allow_rel: bool| -> Vec<Imp> {
        let mut v = vec![];
        for _ in 0..rng.below(4) {
          let t = match rng.below(8) {
            0 | 1 | 2 => {
              let t = mk_jsr(rng);
              // a package importing itself by jsr: is legal but keep it rare
              if t.contains(&format!("{}@", pname)) && rng.chance(3, 4) {
                continue;
              }
              t
            }
            // several specifiers may share one npm requirement
            3 => format!("npm:chalk@{}{}", rng.pick(&["5", "4.1.0"]), rng.pick(&["", "", "/lib/a.js", "/index.js"])),
            4 if allow_rel => "./internal.ts".to_string(),
            5 => {
              let (n, ver) = rng.pick(&all_nv).clone();
              if n == pname {
                continue;
              }
              pkg_file_url(&n, &ver, "/mod.ts")
            }
            _ => continue,
          };
          if rng.chance(1, 6) {
            v.push(Imp::Dynamic(t));
          } else {
            v.push(Imp::Static(t));
          }
        }
        v
      };
      v.files.push(RFile {
        path: "/mod.ts".into(),
        imports: mk_imports(rng, true),
      });
      v.files.push(RFile {
        path: "/sub.ts".into(),
        imports: mk_imports(rng, true),
      });
      v.files.push(RFile {
        path: "/internal.ts".into(),
        imports: mk_imports(rng, false),
      });
      v.files.push(RFile {
        path: "/lib/deep.ts".into(),
        imports: vec![],
      });
    }
  }
  let mut main_imports = vec![];
  for _ in 0..rng.range(1, 5) {
    let t = mk_jsr(rng);
    if rng.chance(1, 5) {
      main_imports.push(Imp::Dynamic(t));
    } else {
      main_imports.push(Imp::Static(t));
    }
  }
  if rng.chance(1, 10) {
    main_imports.push(Imp::Static("jsr:@s/a@latest".into()));
  }
  if rng.chance(1, 10) {
    main_imports.push(Imp::Static("jsr:@s/zzz@1".into()));
  }
  if rng.chance(1, 10) {
    main_imports.push(Imp::Static("npm:chalk@5".into()));
    if rng.coin() {
      main_imports.push(Imp::Static("npm:chalk@5/lib/a.js".into()));
    }
  }
  let mut app = vec![("file:///main.ts".to_string(), main_imports)];
  let mut roots = vec!["file:///main.ts".to_string()];
  if rng.chance(1, 4) {
    app.push((
      "file:///second.ts".to_string(),
      vec![Imp::Static(mk_jsr(rng))],
    ));
    roots.push("file:///second.ts".to_string());
  }
  if rng.chance(1, 8) {
    roots.push(mk_jsr(rng));
  }
  let mut lock_selected = vec![];
  if rng.chance(1, 4) {
    let n = rng.pick(&pkg_names).clone();
    let r = *rng.pick(&reqs);
    let ver = *rng.pick(&["1.0.0", "1.1.0", "1.0.5", "2.0.0"]);
    if PackageReq::from_str(&format!("{}@{}", n, r))
      .unwrap()
      .version_req
      .matches(&Version::parse_standard(ver).unwrap())
    {
      lock_selected.push((format!("{}@{}", n, r), ver.to_string()));
    }
  }
  let cutoff = rng.chance(1, 3);
  let excluded = if cutoff && rng.chance(1, 3) {
    vec![rng.pick(&pkg_names).clone()]
  } else {
    vec![]
  };
  let mut reload_only_versions = vec![];
  if rng.chance(1, 4) {
    let p = rng.pick(&pkgs);
    let newv = "3.0.0";
    let mut files = p.versions[0].files.clone();
    for f in files.iter_mut() {
      f.imports.clear();
    }
    reload_only_versions.push((
      p.name.clone(),
      RVer {
        version: newv.into(),
        yanked: false,
        date: 0,
        exports: Exports::Map(vec![(".".into(), "./mod.ts".into())]),
        files,
        module_graph2: None,
        module_graph1: None,
      },
    ));
    // and somebody asks for it
    app[0].1.push(Imp::Static(format!("jsr:{}@3", p.name)));
  }
  let prefer_cached = rng.chance(1, 3);
  let mut cached_manifests = vec![];
  if prefer_cached {
    for p in &pkgs {
      for v in &p.versions {
        if rng.chance(2, 5) {
          cached_manifests.push((p.name.clone(), v.version.clone()));
        }
      }
    }
  }
  RegWorld {
    pkgs,
    app,
    roots,
    lock_selected,
    cutoff,
    excluded,
    reload_only_versions,
    prefer_cached,
    cached_manifests,
    no_npm_resolver: rng.chance(1, 3),
  }
}

// ------------------------------------------------------------ monitors

pub fn build_reg_world(
  w: &RegWorld,
  kind: GraphKind,
  npm: bool,
) -> Result<(ModuleGraph, Vec<LoadEvent>), PanicInfo> {
  let world = w.to_world();
  let loader = ScriptedLoader::new(&world);
  let mut graph = ModuleGraph::new(kind);
  {
    // the lockfile is applied through the public entry point; besides the
    // jsr: selections it holds npm: entries (also of packages that share a
    // name with a JSR package), which say nothing about JSR packages
    use deno_semver::package::PackageKind;
    let mut entries: Vec<(deno_semver::jsr::JsrDepPackageReq, String)> = vec![];
    for (req, ver) in &w.lock_selected {
      entries.push((deno_semver::jsr::JsrDepPackageReq::jsr(PackageReq::from_str(req).unwrap()), ver.clone()));
    }
    if !w.lock_selected.is_empty() || w.cutoff {
      for (req, ver) in [("@s/a@1", "1.5.0"), ("@s/a@*", "9.9.9"), ("chalk@5", "5.3.0")] {
        entries.push((deno_semver::jsr::JsrDepPackageReq::npm(PackageReq::from_str(req).unwrap()), ver.to_string()));
      }
    }
    let _ = PackageKind::Jsr;
    graph.fill_from_lockfile(deno_graph::FillFromLockfileOptions {
      redirects: std::iter::empty(),
      package_specifiers: entries.iter().map(|(k, v)| (k, v.as_str())),
    });
  }
  let cfg = BuildCfg {
    kind,
    npm: (npm && !w.no_npm_resolver).then(ScriptedNpmResolver::default),
    version_resolver: Some(w.version_resolver()),
    prefer_cached_jsr: w.prefer_cached,
    ..Default::default()
  };
  catch(|| {
    run_build(&mut graph, &w.roots, &[], &loader, &cfg, None, Exec::Inline, None);
  })?;
  Ok((graph, loader.take_log()))
}

fn error_kind_of(msg: &str) -> &'static str {
  if msg.contains("Version tag not supported") {
    "tag"
  } else if msg.contains("JSR package not found") {
    "package-not-found"
  } else if msg.contains("Unknown export") {
    "unknown-export"
  } else if msg.contains("Could not find version of") {
    if msg.contains("A newer matching version was found") {
      "req-not-found-date"
    } else {
      "req-not-found"
    }
  } else if msg.contains("JSR package version not found") {
    "version-manifest-not-found"
  } else {
    "other"
  }
}

pub fn check_reg_graph(
  acc: &mut Acc,
  w: &RegWorld,
  graph: &mut ModuleGraph,
  exp: &RegExpect,
  which: &str,
) {
  let ctx = json!({"world": w.to_json()});
  let obs_map: BTreeMap<PackageReq, String> = graph
    .packages
    .mappings()
    .iter()
    .map(|(k, v)| (k.clone(), v.to_string()))
    .collect();
  if which == "C06" {
    if obs_map != exp.mappings {
      let mut diff = vec![];
      for (k, v) in &exp.mappings {
        if obs_map.get(k) != Some(v) {
          diff.push(format!("{}: expected {} got {:?}", k, v, obs_map.get(k)));
        }
      }
      for (k, v) in &obs_map {
        if !exp.mappings.contains_key(k) {
          diff.push(format!("{}: unexpected {}", k, v));
        }
      }
      acc.violation(
        format!(
          "graph-selection/mappings/lock={}/cutoff={}/restart={}",
          !w.lock_selected.is_empty(),
          w.cutoff,
          exp.restarted
        ),
        format!("{:?}", diff),
        ctx.clone(),
      );
    }
    let oy: BTreeSet<String> =
      graph.packages.used_yanked_packages().map(|n| n.to_string()).collect();
    if oy != exp.used_yanked {
      acc.violation(
        "graph-selection/used-yanked-set",
        format!("observed {:?} expected {:?}", oy, exp.used_yanked),
        ctx.clone(),
      );
    }
  }
  for (spec, outcome) in &exp.outcomes {
    let s = url(spec);
    match outcome {
      Ok(target) => {
        if which == "C07" || which == "C06" {
          let got = graph.redirects.get(&s).map(|t| t.to_string());
          if got.as_deref() != Some(target.as_str()) {
            acc.violation(
              format!("{}/jsr-redirect", if which == "C07" { "mapping" } else { "graph-selection" }),
              format!("{} -> {:?}, expected {}", spec, got, target),
              ctx.clone(),
            );
          }
        }
        acc.count("jsr_specifiers_resolved");
      }
      Err(kind) => {
        acc.count(&format!("jsr_specifiers_failed:{}", kind));
        match graph.try_get(&s) {
          Err(e) => {
            let k = error_kind_of(&e.to_string());
            if k != kind {
              acc.violation(
                format!("jsr-error-kind/expected-{}/got-{}", kind, k),
                format!("{}: {}", spec, e),
                ctx.clone(),
              );
            } else if kind == "unknown-export" && which == "C07" {
              // lists the available exports
              let msg = e.to_string();
              // the package version the message names
              let nv: Option<String> = msg
                .split("for '")
                .nth(1)
                .and_then(|r| r.split('\'').next())
                .map(|s| s.to_string());
              if let Some(nv) = &nv
                && let Some(p) = w.pkgs.iter().find(|p| nv.starts_with(&format!("{}@", p.name)))
                && let Some(v) = p
                  .versions
                  .iter()
                  .chain(w.reload_only_versions.iter().map(|(_, v)| v))
                  .find(|v| *nv == format!("{}@{}", p.name, v.version))
              {
                let keys: Vec<String> = match &v.exports {
                  Exports::Str(_) => vec![".".into()],
                  Exports::Map(m) => m.iter().map(|(k, _)| k.clone()).collect(),
                  _ => vec![],
                };
                for k in keys {
                  if !msg.contains(&format!(" * {}", k)) {
                    acc.violation(
                      "mapping/unknown-export-listing",
                      format!("{} does not list export {}", msg, k),
                      ctx.clone(),
                    );
                  }
                }
              }
            }
          }
          Ok(m) => {
            acc.violation(
              format!("jsr-error-missing/expected-{}", kind),
              format!("{} should be a {} error, got {:?}", spec, kind, m.map(|m| m.specifier().to_string())),
              ctx.clone(),
            );
          }
        }
      }
    }
  }
  if which == "C07" {
    // exports used
    for (nv, used) in &exp.exports_used {
      let pnv = PackageNv::from_str(nv).unwrap();
      let got: Option<BTreeMap<String, String>> = graph.packages.package_exports(&pnv).cloned();
      if got.as_ref() != Some(used) {
        acc.violation(
          "bookkeeping/exports",
          format!("{}: observed {:?} expected {:?}", nv, got, used),
          ctx.clone(),
        );
      }
    }
    let obs_deps: BTreeMap<String, BTreeSet<(String, PackageReq)>> = graph
      .packages
      .packages_with_deps()
      .map(|(nv, deps)| {
        (
          nv.to_string(),
          deps
            .map(|d| {
              (
                match d.kind {
                  deno_semver::package::PackageKind::Jsr => "jsr".to_string(),
                  deno_semver::package::PackageKind::Npm => "npm".to_string(),
                },
                d.req.clone(),
              )
            })
            .collect(),
        )
      })
      .collect();
    for (nv, deps) in &obs_deps {
      let e = exp.deps.get(nv).cloned().unwrap_or_default();
      if *deps != e {
        let missing: Vec<_> = e.difference(deps).collect();
        let extra: Vec<_> = deps.difference(&e).collect();
        acc.violation(
          format!(
            "bookkeeping/dependencies/{}",
            if !missing.is_empty() { "missing" } else { "extra" }
          ),
          format!("{}: missing {:?} extra {:?}", nv, missing, extra),
          ctx.clone(),
        );
      }
      acc.count("package_dep_sets_compared");
    }
    for (nv, deps) in &exp.deps {
      if !obs_deps.contains_key(nv) && !deps.is_empty() {
        // the package's module was expected to be loaded; only flag when the
        // package is known to the graph
        let pnv = PackageNv::from_str(nv).unwrap();
        if graph.packages.package_exports(&pnv).is_some() {
          acc.violation(
            "bookkeeping/dependencies/package-absent",
            format!("{} has deps {:?} but is not listed", nv, deps),
            ctx.clone(),
          );
        }
      }
    }
  }
}

fn reg_case(i: usize, seed: u64, acc: &mut Acc, which: &str) {
  let mut rng = Rng::new(seed).fork(i as u64 ^ 0x4E6);
  let w = gen_reg_world(&mut rng);
  let exp = model_registry(&w);
  acc.eval();
  if let Some(d) = &exp.declined {
    acc.count(&format!("model_declined:{}", d));
    return;
  }
  let kind = *rng.pick(&[GraphKind::All, GraphKind::CodeOnly]);
  let (mut graph, _log) = match build_reg_world(&w, kind, true) {
    Ok(x) => x,
    Err(p) => {
      acc.violation(
        format!("panic/{}", p.signature()),
        format!("build panicked: {}", p.message),
        json!({"world": w.to_json()}),
      );
      return;
    }
  };
  if exp.outcomes.values().any(|o| o.is_ok()) {
    acc.nontrivial(hash64(&(&w, format!("{:?}", kind))));
  }
  if exp.restarted {
    acc.count("worlds_with_restart");
  }
  if !w.lock_selected.is_empty() {
    acc.count("worlds_with_lockfile_selection");
  }
  if w.prefer_cached {
    acc.count("worlds_with_prefer_cached");
  }
  if w.no_npm_resolver {
    acc.count("worlds_without_npm_resolver");
  }
  if !exp.used_yanked.is_empty() {
    acc.count("worlds_with_yanked_fallback");
  }
  if i < 2 {
    acc.sample(json!({"world": w.to_json(), "expected_mappings": exp.mappings.iter().map(|(k, v)| format!("{} => {}", k, v)).collect::<Vec<_>>(),
      "expected_outcomes": exp.outcomes.iter().map(|(k, v)| format!("{} => {:?}", k, v)).collect::<Vec<_>>()}));
  }
  if exp.restarted && !w.lock_selected.is_empty() {
    // does the observed graph match the model that forgets the lockfile?
    let lossy = model_registry_opt(&w, false);
    let obs: BTreeMap<PackageReq, String> = graph
      .packages
      .mappings()
      .iter()
      .map(|(k, v)| (k.clone(), v.to_string()))
      .collect();
    if lossy.mappings != exp.mappings && obs == lossy.mappings {
      acc.violation(
        "graph-selection/lockfile-selection-lost-on-restart",
        format!(
          "after the cache-busting restart the lockfile-seeded selection {:?} is gone: mappings {:?}",
          w.lock_selected,
          obs.iter().map(|(k, v)| format!("{} => {}", k, v)).collect::<Vec<_>>()
        ),
        json!({"world": w.to_json()}),
      );
      return;
    }
  }
  check_reg_graph(acc, &w, &mut graph, &exp, which);
  crate::c01::self_closure(acc, &graph, false, &json!({"world": w.to_json()}));
}

pub fn run_c06_graph_level(tier: Tier, seed: u64, acc_out: &mut Acc) {
  let n = tier.pick(24000, 4000000);
  let acc = par_run(n, |i, acc| reg_case(i, seed, acc, "C06"));
  acc_out.merge(acc);
}

// ------------------------------------------------------------ C07

fn url_roundtrip(acc: &mut Acc, seed: u64, n: usize) {
  struct P(url::Url);
  impl JsrUrlProvider for P {
    fn url(&self) -> &url::Url {
      &self.0
    }
  }
  let mut rng = Rng::new(seed ^ 0xC07);
  let bases = [
    "https://jsr.io/",
    "https://jsr.io",
    "http://localhost:4250/",
    "http://localhost:8080/",
    "https://localhost:4250/",
    "http://localhost/",
    "https://registry.test/base/path/",
    "https://jsr.io.evil.test/",
  ];
  let scopes = ["@a", "@ab", "@a-b", "@std"];
  let names = ["b", "bc", "b-c", "b_c", "path"];
  let versions = ["1.0.0", "1.0.0-x", "1.0.0-x.1", "1.0.0+build", "10.0.0", "0.0.1", "1.0.01"];
  for _ in 0..n {
    acc.eval();
    let base = url(*rng.pick(&bases));
    let p = P(base.clone());
    let name = format!("{}/{}", *rng.pick(&scopes), *rng.pick(&names));
    let Ok(version) = Version::parse_standard(*rng.pick(&versions)) else {
      continue;
    };
    let nv = PackageNv {
      name: name.as_str().into(),
      version,
    };
    let u = p.package_url(&nv);
    let back = p.package_url_to_nv(&u);
    acc.count("url_roundtrips");
    if back.as_ref() != Some(&nv) {
      acc.violation(
        "url-roundtrip/package-url",
        format!("package_url({}) = {} -> {:?}", nv, u, back),
        json!({"base": base.as_str(), "nv": nv.to_string()}),
      );
    }
    // a file of the package maps back to it; a sibling package's file does not
    let file = u.join("sub/mod.ts").unwrap();
    if p.package_url_to_nv(&file).as_ref() != Some(&nv) {
      acc.violation(
        "url-roundtrip/file-url",
        format!("{} -> {:?}", file, p.package_url_to_nv(&file)),
        json!({"base": base.as_str(), "nv": nv.to_string()}),
      );
    }
    if !file.as_str().starts_with(u.as_str()) {
      acc.violation("url-roundtrip/prefix", format!("{} !< {}", u, file), json!({}));
    }
    // traps: other registries / hosts / prefixes must not be attributed
    let other_name = format!("{}/{}", *rng.pick(&scopes), *rng.pick(&names));
    let other_v = Version::parse_standard(*rng.pick(&versions)).unwrap_or(nv.version.clone());
    let other = PackageNv {
      name: other_name.as_str().into(),
      version: other_v,
    };
    if other != nv {
      let ou = p.package_url(&other).join("mod.ts").unwrap();
      if p.package_url_to_nv(&ou).as_ref() == Some(&nv) {
        acc.violation(
          "url-roundtrip/attributed-to-other-package",
          format!("{} attributed to {}", ou, nv),
          json!({}),
        );
      }
      if ou.as_str().starts_with(u.as_str()) {
        acc.violation(
          "url-roundtrip/prefix-collision",
          format!("{} is a prefix of {}", u, ou),
          json!({}),
        );
      }
    }
    for other_base in &bases {
      let ob = url(other_base);
      if ob.as_str().trim_end_matches('/') == base.as_str().trim_end_matches('/') {
        continue;
      }
      let foreign = P(ob.clone()).package_url(&nv).join("mod.ts").unwrap();
      // a URL on another host / port / scheme / path is not in this registry
      // unless this registry's base is a string prefix of it by construction
      if !foreign.as_str().starts_with(base.as_str())
        && p.package_url_to_nv(&foreign).is_some()
      {
        acc.violation(
          "url-roundtrip/foreign-url-attributed",
          format!("{} attributed by registry {}", foreign, base),
          json!({}),
        );
      }
    }
  }
}

pub fn run_c07(tier: Tier, seed: u64) -> i32 {
  let mut rep = Report::new("C07", tier, seed);
  rep.rule = "case = generated registry world (1-4 packages with prefix-trap names @s/a @s/ab, 1-4 versions each incl. prerelease, exports as string/object/non-string/absent, \
    package files importing other packages by jsr:, npm:, https registry URLs and relatively, statically and dynamically; importing program with several requirements, tags, unknown packages/exports, \
    extra roots incl. jsr: roots, lockfile-seeded selections, cutoff dates, versions that only appear after a cache-busting reload). The real build's redirects, unknown-export errors (listing the keys), \
    package_exports(), packages_with_deps() are compared with a bookkeeping model that replays requests in the builder's FIFO discipline; plus package_url / package_url_to_nv round-trip and \
    attribution traps over generated names, versions and registry bases. non-trivial = at least one jsr: specifier resolved through a manifest; distinct by (world, kind)"
    .into();
  rep.assumptions = vec![
    "npm: requirements are resolved by a scripted NpmResolver (always succeeds)".into(),
    "expected mappings come from the C06 selection model".into(),
  ];
  rep.min_nontrivial = tier.pick(500, 20_000);
  rep.floor("package_dep_sets_compared", 500);
  rep.floor("jsr_specifiers_failed:unknown-export", 50);
  rep.floor("url_roundtrips", 1000);
  let n = tier.pick(24000, 4000000);
  let mut acc = par_run(n, |i, acc| reg_case(i, seed, acc, "C07"));
  url_roundtrip(&mut acc, seed, tier.pick(20_000, 400_000));
  rep.finish(acc)
}

pub fn debug_case() {
  let mk = |imports: Vec<Imp>| RVer {
    version: "1.2.0".into(),
    yanked: false,
    date: 0,
    exports: Exports::Map(vec![(".".into(), "./mod.ts".into()), ("./sub".into(), "./sub.ts".into())]),
    files: vec![
      RFile { path: "/mod.ts".into(), imports },
      RFile { path: "/sub.ts".into(), imports: vec![] },
    ],
    module_graph2: None,
    module_graph1: None,
  };
  let w = RegWorld {
    pkgs: vec![RPkg { name: "@s/a".into(), versions: vec![mk(vec![Imp::Dynamic("jsr:@s/a@^1.0.0/sub".into())])] }],
    app: vec![("file:///main.ts".into(), vec![Imp::Static("jsr:@s/a@^1.2.0".into()), Imp::Static("jsr:@s/a@1".into()), Imp::Static("jsr:@s/a@~1.2".into())])],
    roots: vec!["file:///main.ts".into()],
    ..Default::default()
  };
  let (g, log) = build_reg_world(&w, GraphKind::All, true).unwrap();
  for e in &log {
    println!("{} {} {}", e.cache_setting, e.specifier, e.answer.chars().take(40).collect::<String>());
  }
  println!("{}", serde_json::to_string(&serde_json::to_value(&g).unwrap()["packages"]).unwrap());
  println!("{:?}", g.packages.mappings().iter().map(|(k, v)| (k.to_string(), v.to_string())).collect::<Vec<_>>());
  println!("{:?}", model_registry(&w));
}
