// C01 — a built graph is exactly the dependency closure of its roots.
use crate::c15::build_gworld_with_log;
use crate::common::*;
use crate::r#gen::*;
use crate::world::*;
use deno_graph::GraphKind;
use deno_graph::Module;
use deno_graph::ModuleErrorKind;
use deno_graph::ModuleGraph;
use deno_graph::ModuleLoadError;
use deno_graph::ModuleSpecifier;
use deno_graph::Resolution;
use serde_json::Value;
use serde_json::json;
use std::collections::BTreeMap;
use std::collections::BTreeSet;

pub fn obs_res(r: &Resolution) -> MRes {
  match r {
    Resolution::None => MRes::None,
    Resolution::Ok(ok) => MRes::Ok(ok.specifier.to_string()),
    Resolution::Err(_) => MRes::Err,
  }
}

pub fn obs_error_class(k: &ModuleErrorKind) -> String {
  match k {
    ModuleErrorKind::Missing { .. } | ModuleErrorKind::MissingDynamic { .. } => {
      "err:missing".into()
    }
    ModuleErrorKind::Load { err, .. } => match err {
      ModuleLoadError::TooManyRedirects => "err:too-many-redirects".into(),
      ModuleLoadError::Loader(_) => "err:load".into(),
      other => format!("err:load-other:{}", other).chars().take(60).collect(),
    },
    ModuleErrorKind::Parse { .. } => "err:parse".into(),
    ModuleErrorKind::WasmParse { .. } => "err:wasm-parse".into(),
    ModuleErrorKind::UnsupportedMediaType { .. } => "err:unsupported-media-type".into(),
    ModuleErrorKind::InvalidTypeAssertion { .. } => "err:invalid-type-assertion".into(),
    ModuleErrorKind::UnsupportedImportAttributeType { .. } => {
      "err:unsupported-attr".into()
    }
    ModuleErrorKind::UnsupportedModuleTypeForSourcePhaseImport { .. } => {
      "err:unsupported-source-phase".into()
    }
  }
}

pub fn obs_module_class(m: &Module) -> &'static str {
  match m {
    Module::Js(_) => "js",
    Module::Json(_) => "json",
    Module::Wasm(_) => "wasm",
    Module::Npm(_) => "npm",
    Module::Node(_) => "node",
    Module::External(_) => "external",
  }
}

/// Model-free structural monitor run on every graph built in the harness.
pub fn self_closure(
  acc: &mut Acc,
  graph: &ModuleGraph,
  skip_dynamic_deps: bool,
  ctx: &Value,
) {
  let kind = graph.graph_kind();
  let mut entries: BTreeMap<&ModuleSpecifier, &'static str> = BTreeMap::new();
  for m in graph.modules() {
    if entries.insert(m.specifier(), "module").is_some() {
      acc.violation("closure/duplicate-entry", "two entries for one specifier", ctx.clone());
    }
  }
  for e in graph.module_errors() {
    entries.insert(e.specifier(), "error");
  }
  let gj = graph_json(graph);
  if gj.to_string().contains("[INTERNAL ERROR]") {
    acc.violation(
      "closure/unfinished-entry",
      "serialised graph contains the internal-error (pending entry) marker",
      ctx.clone(),
    );
  }
  let present = |s: &ModuleSpecifier| -> bool {
    entries.contains_key(s) || graph.redirects.contains_key(s)
  };
  for (from, to) in &graph.redirects {
    if entries.contains_key(from) {
      acc.violation(
        "closure/entry-and-redirect-source",
        format!("{} is both an entry and a redirect source", from),
        ctx.clone(),
      );
    }
    if !present(to) {
      acc.violation(
        "closure/dangling-redirect",
        format!("redirect {} -> {} points at nothing", from, to),
        ctx.clone(),
      );
    }
  }
  // forward closure + reachability
  let mut reach: BTreeSet<ModuleSpecifier> = BTreeSet::new();
  let mut work: Vec<ModuleSpecifier> = graph.roots.iter().cloned().collect();
  for gi in graph.imports.values() {
    for d in gi.dependencies.values() {
      for r in [&d.maybe_code, &d.maybe_type] {
        if let Some(s) = r.maybe_specifier() {
          work.push(s.clone());
        }
      }
    }
  }
  for s in &work {
    if !present(s) {
      acc.violation(
        "closure/root-or-import-absent",
        format!("{} (root or configured import) has no entry", s),
        ctx.clone(),
      );
    }
  }
  while let Some(s) = work.pop() {
    if !reach.insert(s.clone()) {
      continue;
    }
    if let Some(t) = graph.redirects.get(&s) {
      work.push(t.clone());
    }
    let Some(m) = graph.modules().find(|m| *m.specifier() == s) else {
      continue;
    };
    if let Some(td) = m.maybe_types_dependency()
      && let Some(t) = td.dependency.maybe_specifier()
    {
      if kind.include_types() && !present(t) {
        acc.violation(
          "closure/followed-target-absent/types-dependency",
          format!("types dependency {} of {} is absent", t, s),
          ctx.clone(),
        );
      }
      work.push(t.clone());
    }
    if let Module::Js(js) = m
      && let Some(sm) = &js.maybe_source_map_dependency
      && let Some(t) = sm.dependency.maybe_specifier()
    {
      work.push(t.clone());
    }
    for (text, d) in m.dependencies() {
      if d.is_dynamic && skip_dynamic_deps {
        continue;
      }
      if let Some(t) = d.maybe_code.maybe_specifier() {
        if !present(t) {
          acc.violation(
            "closure/followed-target-absent/code",
            format!("code target {} of {:?} in {} is absent", t, text, s),
            ctx.clone(),
          );
        }
        work.push(t.clone());
      }
      if let Some(t) = d.maybe_type.maybe_specifier() {
        if !present(t) {
          acc.violation(
            "closure/followed-target-absent/type",
            format!("type target {} of {:?} in {} is absent", t, text, s),
            ctx.clone(),
          );
        }
        work.push(t.clone());
      }
    }
  }
  for (s, _) in &entries {
    if !reach.contains(*s) {
      acc.violation(
        "closure/unreachable-entry",
        format!("{} is in the graph but not reachable from roots/imports", s),
        ctx.clone(),
      );
    }
  }
  for s in graph.redirects.keys() {
    if !reach.contains(s) {
      acc.violation(
        "closure/unreachable-redirect",
        format!("redirect source {} is not reachable from roots/imports", s),
        ctx.clone(),
      );
    }
  }
}

pub fn compare_with_model(
  acc: &mut Acc,
  graph: &ModuleGraph,
  mg: &MGraph,
  ctx: &Value,
) {
  let kind = format!("{:?}", graph.graph_kind());
  // slots
  let mut obs: BTreeMap<String, String> = BTreeMap::new();
  for m in graph.modules() {
    obs.insert(m.specifier().to_string(), obs_module_class(m).to_string());
  }
  for e in graph.module_errors() {
    obs.insert(e.specifier().to_string(), obs_error_class(e.as_kind()));
  }
  let exp: BTreeMap<String, String> =
    mg.slots.iter().map(|(k, v)| (k.clone(), v.class())).collect();
  if obs != exp {
    let absent: Vec<_> = exp
      .iter()
      .filter(|(k, _)| !obs.contains_key(*k))
      .map(|(k, v)| format!("{}={}", k, v))
      .collect();
    let extra: Vec<_> = obs
      .iter()
      .filter(|(k, _)| !exp.contains_key(*k))
      .map(|(k, v)| format!("{}={}", k, v))
      .collect();
    let differ: Vec<_> = obs
      .iter()
      .filter(|(k, v)| exp.get(*k).is_some_and(|e| e != *v))
      .map(|(k, v)| format!("{}: observed {} expected {}", k, v, exp[k]))
      .collect();
    let dir = if !differ.is_empty() {
      let (o, e) = obs
        .iter()
        .find(|(k, v)| exp.get(*k).is_some_and(|e| e != *v))
        .map(|(k, v)| (v.clone(), exp[k].clone()))
        .unwrap();
      format!("class/{}-vs-{}", o, e)
    } else if !absent.is_empty() {
      "reachable-absent".to_string()
    } else {
      "unreachable-present".to_string()
    };
    acc.violation(
      format!("model/entries/{}/{}", dir, kind),
      format!("absent {:?}; extra {:?}; differ {:?}", absent, extra, differ),
      json!({"ctx": ctx, "observed": obs, "expected": exp}),
    );
    return;
  }
  // redirects
  let obs_r: BTreeMap<String, String> = graph
    .redirects
    .iter()
    .map(|(a, b)| (a.to_string(), b.to_string()))
    .collect();
  if obs_r != mg.redirects {
    acc.violation(
      format!("model/redirects/{}", kind),
      format!("observed {:?} expected {:?}", obs_r, mg.redirects),
      json!({"ctx": ctx}),
    );
  }
  // dependencies
  for m in graph.modules() {
    // Wasm modules declare dependencies through their import section
    if let Module::Wasm(wm) = m {
      if let Some(MSlot::Wasm { deps }) = mg.slots.get(wm.specifier.as_str()) {
        acc.count("wasm_modules_compared");
        let ok: BTreeSet<&String> = wm.dependencies.keys().collect();
        let ek: BTreeSet<&String> = deps.iter().map(|(k, _)| k).collect();
        if ok != ek {
          acc.violation(
            format!("model/dependency-set/wasm/{}", kind),
            format!("{}: observed dependency texts {:?}, import section declares {:?}", wm.specifier, ok, ek),
            json!({"ctx": ctx, "module": wm.specifier.as_str()}),
          );
        } else {
          for (text, e) in deps {
            let d = &wm.dependencies[text];
            if obs_res(&d.maybe_code) != e.code || obs_res(&d.maybe_type) != e.typ || d.is_dynamic {
              acc.violation(
                format!("model/dependency-field/wasm/{}", kind),
                format!("{} {:?}: code {:?} vs {:?}, type {:?} vs {:?}, dynamic {}", wm.specifier, text, obs_res(&d.maybe_code), e.code, obs_res(&d.maybe_type), e.typ, d.is_dynamic),
                json!({"ctx": ctx, "module": wm.specifier.as_str()}),
              );
            }
          }
        }
      }
      continue;
    }
    let Module::Js(js) = m else { continue };
    // the source map reference
    {
      let obs = js.maybe_source_map_dependency.as_ref().map(|d| (d.specifier.clone(), obs_res(&d.dependency)));
      let exp = mg.source_maps.get(js.specifier.as_str()).cloned();
      if exp.is_some() {
        acc.count("source_map_references_compared");
      }
      if obs != exp {
        acc.violation(
          format!("model/source-map-dependency/{}", kind),
          format!("{}: observed {:?}, source declares {:?}", js.specifier, obs, exp),
          json!({"ctx": ctx, "module": js.specifier.as_str()}),
        );
      }
    }
    let Some(MSlot::Js { deps, types_dep }) = mg.slots.get(js.specifier.as_str())
    else {
      continue;
    };
    let obs_keys: Vec<&String> = js.dependencies.keys().collect();
    let exp_keys: Vec<&String> = deps.iter().map(|(k, _)| k).collect();
    let ok: BTreeSet<&String> = obs_keys.iter().cloned().collect();
    let ek: BTreeSet<&String> = exp_keys.iter().cloned().collect();
    if ok != ek {
      acc.violation(
        format!("model/dependency-set/{}", kind),
        format!(
          "{}: observed dependency texts {:?}, source declares {:?}",
          js.specifier, obs_keys, exp_keys
        ),
        json!({"ctx": ctx, "module": js.specifier.as_str()}),
      );
      continue;
    }
    for (text, e) in deps {
      let d = &js.dependencies[text];
      let oc = obs_res(&d.maybe_code);
      let ot = obs_res(&d.maybe_type);
      let field = if oc != e.code {
        Some(("code", format!("{:?} vs {:?}", oc, e.code)))
      } else if ot != e.typ {
        Some(("type", format!("{:?} vs {:?}", ot, e.typ)))
      } else if d.maybe_attribute_type != e.attr {
        Some(("attribute", format!("{:?} vs {:?}", d.maybe_attribute_type, e.attr)))
      } else if d.is_dynamic != e.is_dynamic && (e.code != MRes::None) {
        Some(("is_dynamic", format!("{} vs {}", d.is_dynamic, e.is_dynamic)))
      } else {
        None
      };
      if let Some((f, detail)) = field {
        acc.violation(
          format!("model/dependency-field/{}/{}", f, kind),
          format!(
            "{} dependency {:?}: observed vs declared {}",
            js.specifier, text, detail
          ),
          json!({"ctx": ctx, "module": js.specifier.as_str(), "text": text}),
        );
      }
      acc.count("dependency_records_compared");
    }
    let otd = js
      .maybe_types_dependency
      .as_ref()
      .map(|t| (t.specifier.clone(), obs_res(&t.dependency)));
    if &otd != types_dep {
      acc.violation(
        format!("model/types-dependency/{}", kind),
        format!("{}: observed {:?} expected {:?}", js.specifier, otd, types_dep),
        json!({"ctx": ctx, "module": js.specifier.as_str()}),
      );
    }
  }
}

fn cover(acc: &mut Acc, gw: &GWorld) {
  for m in &gw.modules {
    acc.count(&format!("media:{:?}{}", m.media, if m.via_header { "(header)" } else { "" }));
    acc.count(&format!("serve:{}", format!("{:?}", m.serve).split('(').next().unwrap()));
    for it in &m.items {
      acc.count(&format!("form:{:?}", it.form));
      if it.deno_types.is_some() {
        acc.count("form:@deno-types");
      }
    }
    // interaction patterns
    let mut by_text: BTreeMap<&str, Vec<&Item>> = BTreeMap::new();
    for it in &m.items {
      by_text.entry(&it.text).or_default().push(it);
    }
    for its in by_text.values() {
      let st = its.iter().any(|i| i.form.is_value() && !i.form.is_dynamic());
      let dy = its.iter().any(|i| i.form.is_dynamic());
      let ty = its.iter().any(|i| !i.form.is_value());
      if st && dy {
        acc.count("interaction:static+dynamic same specifier");
      }
      if (st || dy) && ty {
        acc.count("interaction:code+type same specifier");
      }
    }
    if m.x_ts_types.is_some() {
      acc.count("form:x-typescript-types");
    }
  }
  if gw.resolver.is_some() {
    acc.count("worlds_with_resolver");
  }
  if !gw.imports.is_empty() {
    acc.count("worlds_with_configured_imports");
  }
}

fn one(i: usize, seed: u64, acc: &mut Acc) {
  let mut rng = Rng::new(seed).fork(i as u64 ^ 0xC01);
  let gcfg = GenCfg {
    max_modules: rng.range(2, 12),
    max_items: rng.range(1, 6),
    ..Default::default()
  };
  let mut gw = gen_world(&mut rng, &gcfg);
  // one world in eight also imports npm packages (several specifiers per
  // requirement, statically and dynamically); the closure model declines
  // such worlds, the model-free self-closure monitor still applies
  let with_npm = rng.chance(1, 8) && gw.resolver.is_none();
  if with_npm {
    let targets: Vec<usize> = gw
      .modules
      .iter()
      .enumerate()
      .filter(|(_, m)| m.media.is_js_like() && !m.media.is_declaration() && matches!(m.serve, Serve::Module))
      .map(|(i, _)| i)
      .collect();
    if let Some(&mi) = targets.first() {
      let texts = ["npm:chalk@5", "npm:chalk@5/lib/a.js", "npm:chalk@5/lib/b.js", "npm:left-pad@2.0.0"];
      for t in texts.iter().take(rng.range(2, 4)) {
        gw.modules[mi].items.push(Item {
          form: if rng.chance(1, 5) { Form::DynImport } else { Form::Import },
          text: t.to_string(),
          deno_types: None,
        });
      }
      acc.count("worlds_with_npm_imports");
    }
  }
  for kind in [GraphKind::All, GraphKind::CodeOnly, GraphKind::TypesOnly] {
    let cfg = BuildCfg {
      kind,
      skip_dynamic_deps: rng.chance(1, 5),
      is_dynamic: rng.chance(1, 8),
      resolver: gw.map_resolver(),
      npm: with_npm.then(ScriptedNpmResolver::default),
      ..Default::default()
    };
    acc.eval();
    let ctx = json!({"world": gw.to_json(), "build": cfg.to_json()});
    let graph = match build_gworld_with_log(&gw, &cfg) {
      Ok((g, log)) => {
        // "every specifier being loaded into a single entry": without faults
        // and registry restarts the loader is asked at most once per
        // specifier and mode (an asset load may be followed by one module
        // load of the same specifier)
        let mut seen: BTreeMap<(String, &'static str, bool), usize> = BTreeMap::new();
        for e in &log {
          *seen.entry((e.specifier.clone(), e.cache_setting, e.ensure_cached)).or_default() += 1;
        }
        acc.count_n("loader_calls_checked_for_repeats", log.len() as u64);
        if let Some(((spec, _, _), n)) = seen.iter().find(|(_, n)| **n > 1) {
          acc.violation(
            "closure/specifier-loaded-twice",
            format!("{} was requested from the loader {} times in one fault-free build", spec, n),
            json!({"ctx": json!({"world": gw.to_json(), "build": cfg.to_json()}),
              "log": log.iter().map(|e| format!("{}{} {} -> {}", if e.ensure_cached { "ensure_cached " } else { "" }, e.cache_setting, e.specifier, e.answer.chars().take(60).collect::<String>())).collect::<Vec<_>>()}),
          );
        }
        g
      }
      Err(p) => {
        acc.violation(
          format!("panic/{}", p.signature()),
          format!("build panicked: {}", p.message),
          ctx,
        );
        continue;
      }
    };
    self_closure(acc, &graph, cfg.skip_dynamic_deps, &ctx);
    let mg = model_build(
      &gw,
      &MOptions {
        kind,
        skip_dynamic_deps: cfg.skip_dynamic_deps,
        is_dynamic: cfg.is_dynamic,
        max_redirects: 10,
      },
    );
    if let Some(why) = &mg.declined {
      acc.count(&format!("model_declined:{}", why.split(' ').next().unwrap_or("")));
      continue;
    }
    acc.count(&format!("model_compared:{:?}", kind));
    let followed_edge = mg.slots.values().any(|s| match s {
      MSlot::Js { deps, types_dep } => !deps.is_empty() || types_dep.is_some(),
      MSlot::Wasm { deps } => !deps.is_empty(),
      _ => false,
    });
    if mg.slots.len() >= 2 && followed_edge {
      acc.nontrivial(hash64(&(&gw, format!("{:?}", cfg.to_json()))));
    }
    if cfg.skip_dynamic_deps {
      acc.count("option:skip_dynamic_deps");
    }
    if cfg.is_dynamic {
      acc.count("option:is_dynamic");
    }
    compare_with_model(acc, &graph, &mg, &ctx);
    if i < 2 && kind == GraphKind::All {
      acc.sample(json!({"world": gw.to_json(), "build": cfg.to_json(),
        "entries": mg.slots.iter().map(|(k, v)| format!("{} = {}", k, v.class())).collect::<Vec<_>>(),
        "redirects": mg.redirects}));
    }
  }
  cover(acc, &gw);
}

/// One target imported as an asset (`with { type: "text" | "bytes" }`) by one module and plainly by another,
/// queued in either order, by URL, through a redirect or through a `jsr:` specifier. Only the part of the
/// statement that no proviso touches is asserted: what the *plain* import reaches is present ("nothing
/// reachable is absent") - the plain import's target is a module and that module's own dependency is loaded.
fn asset_and_plain_case(i: usize, seed: u64, acc: &mut Acc) {
  let mut rng = Rng::new(seed).fork(i as u64 ^ 0xC01_A55E7);
  let target_kind = rng.below(3); // 0 url, 1 url behind a redirect, 2 jsr specifier
  let attr = if rng.coin() { "text" } else { "bytes" };
  let asset_first = rng.coin();
  let plain_form = rng.below(3);
  let same_module_extra = rng.chance(1, 3);
  let (spec, final_url, dep_url): (String, String, String) = match target_kind {
    0 => ("https://h.test/lib/mod.ts".into(), "https://h.test/lib/mod.ts".into(), "https://h.test/lib/dep.ts".into()),
    1 => ("https://h.test/latest/mod.ts".into(), "https://h.test/lib/mod.ts".into(), "https://h.test/lib/dep.ts".into()),
    _ => ("jsr:@s/a@1".into(), "https://jsr.io/@s/a/1.0.0/mod.ts".into(), "https://jsr.io/@s/a/1.0.0/dep.ts".into()),
  };
  let mut w = World::new();
  let asset_src = format!("import t from \"{}\" with {{ type: \"{}\" }};\nexport const a = t;\n", spec, attr);
  let plain_src = match plain_form {
    0 => format!("import * as m from \"{}\";\nexport const b = m;\n", spec),
    1 => format!("import \"{}\";\n", spec),
    _ => format!("export * from \"{}\";\n", spec),
  };
  let (first, second) = if asset_first { (&asset_src, &plain_src) } else { (&plain_src, &asset_src) };
  let mut main = String::from("import \"./first.ts\";\nimport \"./second.ts\";\n");
  if same_module_extra {
    main.push_str("import \"./third.ts\";\n");
    w.add_text("file:///third.ts", &asset_src);
  }
  w.add_text("file:///main.ts", &main);
  w.add_text("file:///first.ts", first);
  w.add_text("file:///second.ts", second);
  w.add_text(&final_url, "import \"./dep.ts\";\nexport const v = 1;\n");
  w.add_text(&dep_url, "export const d = 1;\n");
  if target_kind == 1 {
    w.add(&spec, Resp::Redirect(final_url.clone()));
  }
  if target_kind == 2 {
    w.add_text("https://jsr.io/@s/a/meta.json", r#"{ "versions": { "1.0.0": {} } }"#);
    let entry = |body: &str| json!({"size": body.len(), "checksum": format!("sha256-{}", sha256_hex(body.as_bytes()))});
    w.add_text(
      "https://jsr.io/@s/a/1.0.0_meta.json",
      &json!({"exports": {".": "./mod.ts"}, "manifest": {
        "/mod.ts": entry("import \"./dep.ts\";\nexport const v = 1;\n"),
        "/dep.ts": entry("export const d = 1;\n"),
      }})
      .to_string(),
    );
  }
  let kind = *rng.pick(&[GraphKind::All, GraphKind::CodeOnly]);
  let cfg = BuildCfg { kind, unstable_text: true, unstable_bytes: true, ..Default::default() };
  let ctx = json!({"asset_and_plain": {"target": spec, "attribute": attr, "asset_import_first": asset_first, "plain_form": plain_form,
    "a_third_module_with_the_asset_import": same_module_extra, "kind": format!("{:?}", kind)}, "world": w.to_json()});
  acc.eval();
  let loader = ScriptedLoader::new(&w);
  let mut graph = ModuleGraph::new(kind);
  let exec = if rng.coin() { Exec::Inline } else { Exec::Tokio };
  if let Err(p) = catch(|| run_build(&mut graph, &["file:///main.ts".to_string()], &[], &loader, &cfg, None, exec, None)) {
    acc.violation(format!("panic/{}", p.signature()), p.message, ctx);
    return;
  }
  acc.count("asset_and_plain_worlds");
  acc.count(&format!("asset_and_plain:{}", ["url", "redirected-url", "jsr"][target_kind]));
  acc.nontrivial(hash64(&ctx.to_string()));
  let target_class = match graph.try_get(&url(&spec)) {
    Ok(Some(m)) => obs_module_class(m).to_string(),
    Ok(None) => "absent".to_string(),
    Err(e) => format!("error: {}", e),
  };
  let what = ["url", "redirected-url", "jsr"][target_kind];
  if target_class == "external" || target_class == "absent" {
    acc.violation(
      format!("closure/plainly-imported-target-not-loaded-as-module/{}/{}", what, if asset_first { "asset-import-queued-first" } else { "plain-import-queued-first" }),
      format!("{} is imported plainly by one module and as {} by another; it ended as {}", spec, attr, target_class),
      ctx.clone(),
    );
  } else if graph.try_get(&url(&dep_url)).ok().flatten().is_none() {
    acc.violation(
      format!("closure/reachable-absent/behind-asset-and-plain-import/{}", what),
      format!("{} (a dependency of the plainly imported {}) is not in the graph", dep_url, spec),
      json!({"ctx": ctx, "graph": graph_json(&graph), "loads": loader.take_log().iter().map(|e| format!("{}{} {} -> {}", if e.ensure_cached { "ensure_cached " } else { "" }, e.cache_setting, e.specifier, e.answer.chars().take(50).collect::<String>())).collect::<Vec<_>>()}),
    );
  }
}

pub fn run(tier: Tier, seed: u64) -> i32 {
  let mut rep = Report::new("C01", tier, seed);
  rep.rule = "case = (generated world, graph kind, build options). The generator writes each module from an abstract list of import items \
    (13 forms, @deno-types, x-typescript-types, 9 media types by extension or header, file/https, redirect chains, implicit redirects, missing/erroring/external entries, \
    unparsable sources, bare specifiers, import-map-like resolver incl. types-only remaps and failures, configured type imports, several roots), so the ground truth does not come from any parser. \
    Two monitors: (a) closure model (DESIGN Appendix A) computing expected entries with class, redirects and per-module dependency records, compared field by field; \
    (b) model-free self-closure (followed targets present, nothing unreachable, redirects well-formed, no entry that is also a redirect source, no unfinished entry). \
    (c) asset-and-plain worlds: one target imported with `type: text|bytes` by one module and plainly by another, queued in either order, by URL / behind a redirect / through a jsr: specifier: \
    the plain import's target must end as a module and that module's own dependency must be in the graph (only \"nothing reachable is absent\" is asserted there). \
    non-trivial = >= 2 entries and >= 1 followed edge; distinct by (world, options)"
    .into();
  rep.assumptions = vec![
    "model tier: no jsr/npm/node/data schemes, no asset attributes or source-phase imports (those are covered by the self-closure monitor in C03/C07 workloads)".into(),
    "the generator guarantees the same-`type`-attribute proviso".into(),
  ];
  rep.min_nontrivial = tier.pick(2000, 100_000);
  for f in [
    "form:Import", "form:SideEffect", "form:ExportFrom", "form:ExportStar", "form:DynImport",
    "form:ImportType", "form:ExportType", "form:ImportJson", "form:DynImportJson", "form:RefPath",
    "form:RefTypes", "form:SelfTypes", "form:JsDoc", "form:@deno-types",
  ] {
    rep.floor(f, 20);
  }
  rep.floor("interaction:static+dynamic same specifier", 20);
  rep.floor("interaction:code+type same specifier", 20);
  rep.floor("asset_and_plain:jsr", 100);
  let n = tier.pick(32000, 6400000);
  let mut acc = par_run(n, |i, acc| one(i, seed, acc));
  let acc2 = par_run(tier.pick(1200, 24000), |i, acc| asset_and_plain_case(i, seed, acc));
  acc.merge(acc2);
  rep.finish(acc)
}
