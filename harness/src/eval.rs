// E3: reachability evaluator over a graph's *public* data (oracle of C02 and
// C15, reused by C17/C18). Written from the property statements; it never
// calls ModuleGraph::walk.
#![allow(dead_code)]

use deno_graph::GraphKind;
use deno_graph::MediaType;
use deno_graph::Module;
use deno_graph::ModuleError;
use deno_graph::ModuleErrorKind;
use deno_graph::ModuleGraph;
use deno_graph::ModuleGraphError;
use deno_graph::ModuleSpecifier;
use deno_graph::Resolution;
use deno_graph::ResolutionError;
use std::collections::BTreeMap;
use std::collections::BTreeSet;
use std::collections::HashMap;

#[derive(Clone, Debug)]
pub enum CheckJs {
  True,
  False,
  /// checkable JS specifiers
  Custom(BTreeSet<String>),
}

impl CheckJs {
  pub fn allows(&self, s: &ModuleSpecifier) -> bool {
    match self {
      CheckJs::True => true,
      CheckJs::False => false,
      CheckJs::Custom(set) => set.contains(s.as_str()),
    }
  }
}

#[derive(Clone, Debug)]
pub struct EvalOpts {
  pub kind: GraphKind,
  pub follow_dynamic: bool,
  pub check_js: CheckJs,
  pub prefer_fast_check: bool,
}

pub enum Entry<'a> {
  Module(&'a Module),
  Err(&'a ModuleError),
  Redirect(&'a ModuleSpecifier),
  Nothing,
}

pub struct GView<'a> {
  pub graph: &'a ModuleGraph,
  pub modules: HashMap<&'a ModuleSpecifier, &'a Module>,
  pub errors: HashMap<&'a ModuleSpecifier, &'a ModuleError>,
}

impl<'a> GView<'a> {
  pub fn new(graph: &'a ModuleGraph) -> Self {
    GView {
      graph,
      modules: graph.modules().map(|m| (m.specifier(), m)).collect(),
      errors: graph.module_errors().map(|e| (e.specifier(), e)).collect(),
    }
  }

  /// entries take precedence over the redirect table (the walk's contract:
  /// "redirects transparently" for specifiers that have no entry of their own)
  pub fn entry(&self, s: &ModuleSpecifier) -> Entry<'a> {
    if let Some(m) = self.modules.get(s) {
      return Entry::Module(m);
    }
    if let Some(e) = self.errors.get(s) {
      return Entry::Err(e);
    }
    if let Some(t) = self.graph.redirects.get(s) {
      return Entry::Redirect(t);
    }
    Entry::Nothing
  }

  /// follow redirects (entries first) to the settled entry
  pub fn settle(&self, s: &ModuleSpecifier) -> (ModuleSpecifier, Entry<'a>) {
    let mut cur = s.clone();
    let mut seen = BTreeSet::new();
    loop {
      match self.entry(&cur) {
        Entry::Redirect(t) => {
          if !seen.insert(cur.clone()) {
            return (cur, Entry::Nothing);
          }
          cur = t.clone();
        }
        e => return (cur, e),
      }
    }
  }
}

pub fn is_checkable(mt: MediaType, s: &ModuleSpecifier, cj: &CheckJs) -> bool {
  match mt {
    MediaType::TypeScript
    | MediaType::Mts
    | MediaType::Cts
    | MediaType::Dts
    | MediaType::Dmts
    | MediaType::Dcts
    | MediaType::Tsx
    | MediaType::Json
    | MediaType::Wasm => true,
    MediaType::JavaScript | MediaType::Jsx | MediaType::Mjs | MediaType::Cjs => {
      cj.allows(s)
    }
    _ => false,
  }
}

/// A failure the statement of C02 lists, identified independently of message
/// text: (class, subject) where subject is the failing specifier for entry
/// errors and policy violations, or the referring range for failed
/// resolutions.
#[derive(Clone, Debug, PartialEq, Eq, PartialOrd, Ord)]
pub struct FailureId {
  pub class: String,
  pub subject: String,
}

#[derive(Clone, Debug, Default)]
pub struct EvalResult {
  /// every specifier a walk must yield (entries and redirect sources)
  pub visited: BTreeSet<String>,
  /// failure -> acceptable referrer strings ("" = none recorded)
  pub failures: BTreeMap<FailureId, BTreeSet<String>>,
  /// Missing entries reached (by settled specifier) with no followed edge
  /// pointing at them (roots / configured imports)
  pub missing_without_edge: BTreeSet<String>,
}

pub fn module_error_class(k: &ModuleErrorKind) -> &'static str {
  match k {
    ModuleErrorKind::Load { .. } => "load",
    ModuleErrorKind::Missing { .. } | ModuleErrorKind::MissingDynamic { .. } => {
      "missing"
    }
    ModuleErrorKind::Parse { .. } => "parse",
    ModuleErrorKind::WasmParse { .. } => "wasm-parse",
    ModuleErrorKind::UnsupportedMediaType { .. } => "unsupported-media-type",
    ModuleErrorKind::InvalidTypeAssertion { .. } => "invalid-type-assertion",
    ModuleErrorKind::UnsupportedImportAttributeType { .. } => {
      "unsupported-attribute-type"
    }
    ModuleErrorKind::UnsupportedModuleTypeForSourcePhaseImport { .. } => {
      "unsupported-source-phase"
    }
  }
}

pub fn resolution_error_class(e: &ResolutionError) -> &'static str {
  match e {
    ResolutionError::InvalidDowngrade { .. } => "policy:https-to-http",
    ResolutionError::InvalidLocalImport { .. } => "policy:remote-imports-file",
    ResolutionError::InvalidJsrHttpsTypesImport { .. } => "resolution:jsr-https-types",
    ResolutionError::InvalidSpecifier { .. } => "resolution:invalid-specifier",
    ResolutionError::ResolverError { .. } => "resolution:resolver",
  }
}

/// Identify an error reported by the implementation the same way.
pub fn identify(e: &ModuleGraphError) -> (FailureId, String) {
  match e {
    ModuleGraphError::ModuleError(me) => (
      FailureId {
        class: module_error_class(me.as_kind()).to_string(),
        subject: me.specifier().to_string(),
      },
      me.maybe_referrer().map(|r| r.to_string()).unwrap_or_default(),
    ),
    ModuleGraphError::ResolutionError(re)
    | ModuleGraphError::TypesResolutionError(re) => {
      let class = resolution_error_class(re);
      let subject = match re {
        ResolutionError::InvalidDowngrade { specifier, .. }
        | ResolutionError::InvalidLocalImport { specifier, .. } => {
          format!("{} from {}", specifier, re.range())
        }
        _ => re.range().to_string(),
      };
      (
        FailureId {
          class: class.to_string(),
          subject,
        },
        re.range().to_string(),
      )
    }
  }
}

thread_local! {
  /// (referrer, specifier text) pairs that the *sources* import statically
  /// (generator knowledge): the evaluator treats them as static edges even
  /// if the graph's `is_dynamic` flag says otherwise
  static STATIC_EDGES: std::cell::RefCell<BTreeSet<(String, String)>> = const { std::cell::RefCell::new(BTreeSet::new()) };
}

pub fn set_static_edges(edges: BTreeSet<(String, String)>) {
  STATIC_EDGES.with(|s| *s.borrow_mut() = edges);
}

fn dep_dynamic(referrer: &ModuleSpecifier, text: &str, dep: &deno_graph::Dependency) -> bool {
  dep.is_dynamic && !STATIC_EDGES.with(|s| s.borrow().contains(&(referrer.to_string(), text.to_string())))
}

pub fn evaluate(
  graph: &ModuleGraph,
  roots: &[ModuleSpecifier],
  o: &EvalOpts,
  skip_deps_of: &BTreeSet<String>,
) -> EvalResult {
  let v = GView::new(graph);
  let mut res = EvalResult::default();
  let types = o.kind.include_types();
  // (specifier, edge that led here: Some((referrer range, is_dynamic)) or None)
  let mut work: Vec<ModuleSpecifier> = vec![];
  let mut seen: BTreeSet<ModuleSpecifier> = BTreeSet::new();
  let mut incoming: BTreeMap<String, BTreeSet<String>> = BTreeMap::new();
  let mut push = |work: &mut Vec<ModuleSpecifier>,
                  seen: &mut BTreeSet<ModuleSpecifier>,
                  s: &ModuleSpecifier| {
    if seen.insert(s.clone()) {
      work.push(s.clone());
    }
  };
  for r in roots {
    push(&mut work, &mut seen, r);
  }
  for gi in graph.imports.values() {
    for dep in gi.dependencies.values() {
      if let Some(s) = dep.maybe_code.maybe_specifier() {
        push(&mut work, &mut seen, s);
      }
      if types && let Some(s) = dep.maybe_type.maybe_specifier() {
        push(&mut work, &mut seen, s);
      }
    }
  }
  let mut add_failure =
    |res: &mut EvalResult, class: &str, subject: String, referrer: String| {
      res
        .failures
        .entry(FailureId {
          class: class.to_string(),
          subject,
        })
        .or_default()
        .insert(referrer);
    };
  while let Some(s) = work.pop() {
    match v.entry(&s) {
      Entry::Nothing => {}
      Entry::Redirect(t) => {
        res.visited.insert(s.to_string());
        push(&mut work, &mut seen, t);
      }
      Entry::Err(e) => {
        res.visited.insert(s.to_string());
        add_failure(
          &mut res,
          module_error_class(e.as_kind()),
          e.specifier().to_string(),
          e.maybe_referrer().map(|r| r.to_string()).unwrap_or_default(),
        );
      }
      Entry::Module(m) => {
        let mut yield_it = true;
        if let Module::Js(js) = m
          && types
        {
          if let Some(td) = &js.maybe_types_dependency
            && let Resolution::Ok(r) = &td.dependency
          {
            push(&mut work, &mut seen, &r.specifier);
            if o.kind == GraphKind::TypesOnly {
              yield_it = false;
            }
          } else if o.kind == GraphKind::TypesOnly
            && !is_checkable(js.media_type, &js.specifier, &o.check_js)
          {
            yield_it = false;
          }
        }
        if !yield_it {
          continue;
        }
        res.visited.insert(s.to_string());
        let check_types =
          types && is_checkable(m.media_type(), m.specifier(), &o.check_js);
        // failures on the module's own edges
        let scheme = m.specifier().scheme().to_string();
        let mut check_res = |res: &mut EvalResult,
                             text: &str,
                             r: &Resolution,
                             is_dynamic: bool| {
          match r {
            Resolution::None => {}
            Resolution::Err(e) => {
              let subject = e.range().to_string();
              add_failure(res, resolution_error_class(e), subject, e.range().to_string());
            }
            Resolution::Ok(ok) => {
              let ts = ok.specifier.scheme();
              if scheme == "https" && ts == "http" {
                add_failure(
                  res,
                  "policy:https-to-http",
                  format!("{} from {}", ok.specifier, ok.range),
                  ok.range.to_string(),
                );
              } else if (scheme == "https" || scheme == "http")
                && ts == "file"
                && text.to_lowercase().starts_with("file://")
              {
                add_failure(
                  res,
                  "policy:remote-imports-file",
                  format!("{} from {}", ok.specifier, ok.range),
                  ok.range.to_string(),
                );
              } else {
                // remember the edge as an acceptable referrer of whatever
                // failure sits at the end of it
                let (settled, _) = v.settle(&ok.specifier);
                incoming
                  .entry(settled.to_string())
                  .or_default()
                  .insert(ok.range.to_string());
                let _ = is_dynamic;
              }
            }
          }
        };
        if types
          && let Some(td) = m.maybe_types_dependency()
        {
          check_res(&mut res, &td.specifier, &td.dependency, false);
        }
        let deps = if check_types && o.prefer_fast_check {
          m.dependencies_prefer_fast_check()
        } else {
          m.dependencies()
        };
        for (text, dep) in deps {
          let dynamic = dep_dynamic(m.specifier(), text, dep);
          if dynamic && !o.follow_dynamic {
            continue;
          }
          check_res(&mut res, text, &dep.maybe_code, dynamic);
          if check_types {
            check_res(&mut res, text, &dep.maybe_type, dynamic);
          }
        }
        if skip_deps_of.contains(s.as_str()) {
          continue;
        }
        for (text, dep) in deps {
          if dep_dynamic(m.specifier(), text, dep) && !o.follow_dynamic {
            continue;
          }
          if let Some(t) = dep.maybe_code.maybe_specifier() {
            push(&mut work, &mut seen, t);
          }
          if types && let Some(t) = dep.maybe_type.maybe_specifier() {
            push(&mut work, &mut seen, t);
          }
        }
      }
    }
  }
  // acceptable referrers: the entry's own + every followed edge reaching it
  for (fid, refs) in res.failures.iter_mut() {
    if let Some(inc) = incoming.get(&fid.subject) {
      refs.extend(inc.iter().cloned());
    }
    if fid.class == "missing" && !incoming.contains_key(&fid.subject) {
      res.missing_without_edge.insert(fid.subject.clone());
    }
  }
  res
}

/// Second, deliberately naive formulation of the visited set (fixpoint over
/// all entries instead of a worklist) used to cross-check `evaluate`.
pub fn visited_fixpoint(
  graph: &ModuleGraph,
  roots: &[ModuleSpecifier],
  o: &EvalOpts,
) -> BTreeSet<String> {
  let v = GView::new(graph);
  let types = o.kind.include_types();
  let mut reach: BTreeSet<ModuleSpecifier> = roots.iter().cloned().collect();
  for gi in graph.imports.values() {
    for dep in gi.dependencies.values() {
      if let Some(s) = dep.maybe_code.maybe_specifier() {
        reach.insert(s.clone());
      }
      if types && let Some(s) = dep.maybe_type.maybe_specifier() {
        reach.insert(s.clone());
      }
    }
  }
  let yields = |s: &ModuleSpecifier| -> (bool, Vec<ModuleSpecifier>) {
    // (is yielded, out-edges)
    match v.entry(s) {
      Entry::Nothing => (false, vec![]),
      Entry::Redirect(t) => (true, vec![t.clone()]),
      Entry::Err(_) => (true, vec![]),
      Entry::Module(m) => {
        let mut out = vec![];
        let mut y = true;
        if let Module::Js(js) = m
          && types
        {
          let td = js
            .maybe_types_dependency
            .as_ref()
            .and_then(|d| d.dependency.maybe_specifier());
          if let Some(t) = td {
            out.push(t.clone());
            if o.kind == GraphKind::TypesOnly {
              y = false;
            }
          } else if o.kind == GraphKind::TypesOnly
            && !is_checkable(js.media_type, &js.specifier, &o.check_js)
          {
            y = false;
          }
        }
        if y {
          let check_types =
            types && is_checkable(m.media_type(), m.specifier(), &o.check_js);
          let deps = if check_types && o.prefer_fast_check {
            m.dependencies_prefer_fast_check()
          } else {
            m.dependencies()
          };
          for (text, dep) in deps {
            if dep_dynamic(m.specifier(), text, dep) && !o.follow_dynamic {
              continue;
            }
            if let Some(t) = dep.maybe_code.maybe_specifier() {
              out.push(t.clone());
            }
            if types && let Some(t) = dep.maybe_type.maybe_specifier() {
              out.push(t.clone());
            }
          }
        }
        (y, out)
      }
    }
  };
  loop {
    let mut grew = false;
    for s in reach.clone() {
      let (_, out) = yields(&s);
      for t in out {
        if reach.insert(t) {
          grew = true;
        }
      }
    }
    if !grew {
      break;
    }
  }
  reach
    .iter()
    .filter(|s| yields(s).0)
    .map(|s| s.to_string())
    .collect()
}
