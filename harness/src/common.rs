// Shared infrastructure: PRNG, context, evidence, known-findings, parallel map.
#![allow(dead_code)]

use serde_json::Value;
use serde_json::json;
use std::cell::RefCell;
use std::collections::BTreeMap;
use std::collections::BTreeSet;
use std::collections::HashSet;
use std::hash::Hash;
use std::hash::Hasher;
use std::time::Instant;

/// root of the verification tree; `DGV_VERIF_DIR` redirects evidence / replays / known findings of a scratch
/// copy (tools/sweep_copy.sh) so that a long mutant sweep does not disturb /verif
pub fn verif_dir() -> String {
  std::env::var("DGV_VERIF_DIR").unwrap_or_else(|_| "/verif".to_string())
}

// ---------------------------------------------------------------- PRNG

#[derive(Clone, Debug)]
pub struct Rng(pub u64);

impl Rng {
  pub fn new(seed: u64) -> Self {
    Rng(seed ^ 0x9E37_79B9_7F4A_7C15)
  }
  pub fn fork(&mut self, salt: u64) -> Rng {
    let a = self.next();
    Rng::new(a ^ salt.wrapping_mul(0xD6E8_FEB8_6659_FD93))
  }
  pub fn next(&mut self) -> u64 {
    self.0 = self.0.wrapping_add(0x9E37_79B9_7F4A_7C15);
    let mut z = self.0;
    z = (z ^ (z >> 30)).wrapping_mul(0xBF58_476D_1CE4_E5B9);
    z = (z ^ (z >> 27)).wrapping_mul(0x94D0_49BB_1331_11EB);
    z ^ (z >> 31)
  }
  pub fn below(&mut self, n: usize) -> usize {
    if n == 0 { 0 } else { (self.next() % n as u64) as usize }
  }
  pub fn range(&mut self, lo: usize, hi_incl: usize) -> usize {
    lo + self.below(hi_incl - lo + 1)
  }
  pub fn chance(&mut self, num: u32, den: u32) -> bool {
    (self.next() % den as u64) < num as u64
  }
  pub fn coin(&mut self) -> bool {
    self.next() & 1 == 1
  }
  pub fn pick<'a, T>(&mut self, xs: &'a [T]) -> &'a T {
    &xs[self.below(xs.len())]
  }
  pub fn shuffle<T>(&mut self, xs: &mut [T]) {
    for i in (1..xs.len()).rev() {
      let j = self.below(i + 1);
      xs.swap(i, j);
    }
  }
}

pub fn hash64<T: Hash>(t: &T) -> u64 {
  // FNV-1a based stable hasher (std DefaultHasher is stable within a build,
  // which is all that is needed here, but keep it explicit).
  struct Fnv(u64);
  impl Hasher for Fnv {
    fn finish(&self) -> u64 {
      self.0
    }
    fn write(&mut self, bytes: &[u8]) {
      for b in bytes {
        self.0 ^= *b as u64;
        self.0 = self.0.wrapping_mul(0x100000001b3);
      }
    }
  }
  let mut h = Fnv(0xcbf29ce484222325);
  t.hash(&mut h);
  h.finish()
}

pub fn hash_str(s: &str) -> u64 {
  hash64(&s)
}

// ---------------------------------------------------------------- tiers

#[derive(Clone, Copy, Debug, PartialEq, Eq)]
pub enum Tier {
  Quick,
  Thorough,
}

impl Tier {
  pub fn name(&self) -> &'static str {
    match self {
      Tier::Quick => "quick",
      Tier::Thorough => "thorough",
    }
  }
  pub fn pick<T>(&self, q: T, t: T) -> T {
    match self {
      Tier::Quick => q,
      Tier::Thorough => t,
    }
  }
}

// ---------------------------------------------------------------- violations

#[derive(Clone, Debug)]
pub struct Violation {
  /// canonical, line-number free description of the failing class
  pub signature: String,
  /// human readable one-liner
  pub what: String,
  /// full witness for the replay file
  pub witness: Value,
}

/// Accumulator filled by worker threads, merged by the driver.
#[derive(Default, Debug)]
pub struct Acc {
  pub evaluations: u64,
  pub nontrivial: HashSet<u64>,
  pub violations: Vec<Violation>,
  pub samples: Vec<Value>,
  pub counters: BTreeMap<String, u64>,
  pub sets: BTreeMap<String, BTreeSet<String>>,
  pub inconclusive: Vec<String>,
}

impl Acc {
  pub fn new() -> Self {
    Self::default()
  }
  pub fn eval(&mut self) {
    self.evaluations += 1;
  }
  pub fn nontrivial(&mut self, h: u64) {
    self.nontrivial.insert(h);
  }
  pub fn count(&mut self, key: &str) {
    *self.counters.entry(key.to_string()).or_insert(0) += 1;
  }
  pub fn count_n(&mut self, key: &str, n: u64) {
    *self.counters.entry(key.to_string()).or_insert(0) += n;
  }
  pub fn max(&mut self, key: &str, n: u64) {
    let e = self.counters.entry(format!("max:{}", key)).or_insert(0);
    if n > *e {
      *e = n;
    }
  }
  pub fn set_add(&mut self, key: &str, v: impl Into<String>) {
    let s = self.sets.entry(key.to_string()).or_default();
    if s.len() < 100_000 {
      s.insert(v.into());
    }
  }
  pub fn sample(&mut self, v: Value) {
    if self.samples.len() < 4 {
      self.samples.push(v);
    }
  }
  pub fn violation(
    &mut self,
    signature: impl Into<String>,
    what: impl Into<String>,
    witness: Value,
  ) {
    let signature = signature.into();
    // keep at most 3 witnesses per signature per accumulator
    let n = self
      .violations
      .iter()
      .filter(|v| v.signature == signature)
      .count();
    self.count(&format!("viol:{}", signature));
    if n < 3 {
      self.violations.push(Violation {
        signature,
        what: what.into(),
        witness,
      });
    }
  }
  pub fn merge(&mut self, other: Acc) {
    self.evaluations += other.evaluations;
    self.nontrivial.extend(other.nontrivial);
    for v in other.violations {
      let n = self
        .violations
        .iter()
        .filter(|x| x.signature == v.signature)
        .count();
      if n < 3 {
        self.violations.push(v);
      }
    }
    for s in other.samples {
      if self.samples.len() < 6 {
        self.samples.push(s);
      }
    }
    for (k, v) in other.counters {
      if k.starts_with("max:") {
        let e = self.counters.entry(k).or_insert(0);
        if v > *e {
          *e = v;
        }
      } else {
        *self.counters.entry(k).or_insert(0) += v;
      }
    }
    for (k, v) in other.sets {
      self.sets.entry(k).or_default().extend(v);
    }
    self.inconclusive.extend(other.inconclusive);
  }
}

// ---------------------------------------------------------------- panics

thread_local! {
  static LAST_PANIC: RefCell<Option<PanicInfo>> = const { RefCell::new(None) };
  static QUIET: RefCell<bool> = const { RefCell::new(false) };
}

#[derive(Clone, Debug)]
pub struct PanicInfo {
  pub file: String,
  pub line: u32,
  pub message: String,
}

impl PanicInfo {
  /// Line-number free signature: file + normalised source line at the panic
  /// location (read from disk) + the first 60 chars of message kind.
  pub fn signature(&self) -> String {
    let src_line = std::fs::read_to_string(&self.file)
      .ok()
      .and_then(|t| {
        t.lines()
          .nth(self.line.saturating_sub(1) as usize)
          .map(|l| l.split_whitespace().collect::<Vec<_>>().join(" "))
      })
      .unwrap_or_default();
    let file = self
      .file
      .rsplit_once("/src/")
      .map(|(_, f)| format!("src/{}", f))
      .unwrap_or(self.file.clone());
    format!("{}|{}", file, src_line)
  }
}

pub fn install_panic_hook() {
  std::panic::set_hook(Box::new(|info| {
    let (file, line) = info
      .location()
      .map(|l| (l.file().to_string(), l.line()))
      .unwrap_or_default();
    let message = if let Some(s) = info.payload().downcast_ref::<&str>() {
      s.to_string()
    } else if let Some(s) = info.payload().downcast_ref::<String>() {
      s.clone()
    } else {
      "<non-string panic>".to_string()
    };
    let quiet = QUIET.with(|q| *q.borrow());
    if !quiet {
      eprintln!("[dgv] panic at {}:{}: {}", file, line, message);
    }
    LAST_PANIC.with(|p| {
      *p.borrow_mut() = Some(PanicInfo {
        file,
        line,
        message,
      })
    });
  }));
}

/// Run `f`, catching panics; the panic location is returned.
pub fn catch<T>(f: impl FnOnce() -> T) -> Result<T, PanicInfo> {
  LAST_PANIC.with(|p| *p.borrow_mut() = None);
  let prev = QUIET.with(|q| std::mem::replace(&mut *q.borrow_mut(), true));
  let r = std::panic::catch_unwind(std::panic::AssertUnwindSafe(f));
  QUIET.with(|q| *q.borrow_mut() = prev);
  match r {
    Ok(v) => Ok(v),
    Err(_) => Err(LAST_PANIC.with(|p| p.borrow_mut().take()).unwrap_or(
      PanicInfo {
        file: "?".into(),
        line: 0,
        message: "?".into(),
      },
    )),
  }
}

// ---------------------------------------------------------------- parallel

pub fn n_threads() -> usize {
  std::env::var("DGV_THREADS")
    .ok()
    .and_then(|s| s.parse().ok())
    .unwrap_or_else(|| {
      std::thread::available_parallelism()
        .map(|n| n.get())
        .unwrap_or(8)
        .min(16)
    })
}

/// Runs `f(index, &mut Acc)` for index in 0..n on worker threads (dynamic
/// work stealing through an atomic counter), each on a big stack; merges.
/// A panic escaping `f` (i.e. a harness bug or an uncaught target panic) is
/// recorded as inconclusive, never as a violation.
fn progress_file() -> Option<&'static str> {
  static P: std::sync::OnceLock<Option<String>> = std::sync::OnceLock::new();
  P.get_or_init(|| std::env::var("DGV_PROGRESS_FILE").ok()).as_deref()
}

/// (property id, tier, seed) of the running check, for the watchdog
static WATCH_CTX: std::sync::Mutex<Option<(String, String, u64)>> = std::sync::Mutex::new(None);
/// properties whose statement includes termination: a stuck case is a
/// violation there, inconclusive elsewhere
static STUCK_IS_VIOLATION: std::sync::atomic::AtomicBool = std::sync::atomic::AtomicBool::new(false);

pub fn stuck_case_is_violation() {
  STUCK_IS_VIOLATION.store(true, std::sync::atomic::Ordering::Relaxed);
}

fn case_deadline_secs() -> u64 {
  std::env::var("DGV_CASE_DEADLINE").ok().and_then(|s| s.parse().ok()).unwrap_or(300)
}

/// Called by the watchdog when one generated case has been running for longer
/// than the deadline (cases normally take micro- to milliseconds; the
/// deadline is ~10^5 times that). The stuck thread cannot be stopped, so the
/// process reports and exits.
fn report_stuck_case(i: usize, secs: u64) -> ! {
  let (id, tier, seed) = WATCH_CTX.lock().ok().and_then(|g| g.clone()).unwrap_or(("?".into(), "quick".into(), 1));
  if STUCK_IS_VIOLATION.load(std::sync::atomic::Ordering::Relaxed) {
    let rdir = format!("{}/replays", verif_dir());
    std::fs::create_dir_all(&rdir).ok();
    let rpath = format!("{}/{}-stuck-case{}-seed{}.json", rdir, id, i, seed);
    let body = json!({
      "property": id, "signature": "non-termination/case-did-not-finish", "seed": seed, "tier": tier,
      "what": format!("generated case {} was still running after {} s (cases of this check take milliseconds)", i, secs),
      "witness": {"case_index": i, "deadline_s": secs},
    });
    std::fs::write(&rpath, serde_json::to_string_pretty(&body).unwrap()).ok();
    println!("  signature: non-termination/case-did-not-finish");
    println!("  what: generated case {} was still running after {} s", i, secs);
    println!("VIOLATION property={} replay={}", id, rpath);
    std::process::exit(1);
  }
  println!("INCONCLUSIVE property={} watchdog: generated case {} was still running after {} s", id, i, secs);
  std::process::exit(2);
}

pub fn par_run<F>(n: usize, f: F) -> Acc
where
  F: Fn(usize, &mut Acc) + Sync,
{
  use std::sync::atomic::AtomicU64;
  use std::sync::atomic::AtomicUsize;
  use std::sync::atomic::Ordering;
  let next = AtomicUsize::new(0);
  let threads = n_threads().min(n.max(1));
  let mut total = Acc::new();
  // per worker: (case index + 1, start time in ms since `t0`); 0 = idle
  let t0 = Instant::now();
  let slots: Vec<(AtomicUsize, AtomicU64)> = (0..threads).map(|_| (AtomicUsize::new(0), AtomicU64::new(0))).collect();
  let done = std::sync::atomic::AtomicBool::new(false);
  std::thread::scope(|s| {
    // watchdog
    {
      let slots = &slots;
      let done = &done;
      s.spawn(move || {
        let deadline = case_deadline_secs();
        while !done.load(Ordering::Relaxed) {
          std::thread::sleep(std::time::Duration::from_millis(500));
          let now = t0.elapsed().as_millis() as u64;
          for (case, started) in slots.iter() {
            let c = case.load(Ordering::Relaxed);
            let st = started.load(Ordering::Relaxed);
            if c != 0 && now.saturating_sub(st) > deadline * 1000 {
              // re-check that it is still the same case
              if case.load(Ordering::Relaxed) == c && started.load(Ordering::Relaxed) == st {
                report_stuck_case(c - 1, deadline);
              }
            }
          }
        }
      });
    }
    let mut handles = Vec::new();
    for w in 0..threads {
      let next = &next;
      let f = &f;
      let slot = &slots[w];
      handles.push(
        std::thread::Builder::new()
          .stack_size(256 << 20)
          .spawn_scoped(s, move || {
            let mut acc = Acc::new();
            loop {
              let i = next.fetch_add(1, Ordering::Relaxed);
              if i >= n {
                break;
              }
              if let Some(pf) = progress_file() {
                // crash localisation (second run after a process crash):
                // the last indices written are the cases in flight
                use std::io::Write;
                if let Ok(mut fh) = std::fs::OpenOptions::new().append(true).create(true).open(pf) {
                  let _ = writeln!(fh, "{}", i);
                }
              }
              slot.1.store(t0.elapsed().as_millis() as u64, Ordering::Relaxed);
              slot.0.store(i + 1, Ordering::Relaxed);
              let r = catch(|| f(i, &mut acc));
              slot.0.store(0, Ordering::Relaxed);
              if let Err(p) = r {
                acc.inconclusive.push(format!(
                  "harness item {} panicked at {}:{}: {}",
                  i, p.file, p.line, p.message
                ));
              }
            }
            acc
          })
          .unwrap(),
      );
    }
    for h in handles {
      match h.join() {
        Ok(acc) => total.merge(acc),
        Err(_) => total.inconclusive.push("worker thread died".into()),
      }
    }
    done.store(true, Ordering::Relaxed);
  });
  total
}

// ---------------------------------------------------------------- findings

#[derive(Debug, Clone)]
pub struct KnownFinding {
  pub property: String,
  pub signature: String,
  pub status: String,
  pub what: String,
}

pub fn load_known_findings() -> Vec<KnownFinding> {
  let path = format!("{}/known_findings.json", verif_dir());
  let Ok(text) = std::fs::read_to_string(&path) else {
    return vec![];
  };
  let v: Value = serde_json::from_str(&text).expect("known_findings.json");
  v["findings"]
    .as_array()
    .map(|a| {
      a.iter()
        .map(|f| KnownFinding {
          property: f["property"].as_str().unwrap_or("").to_string(),
          signature: f["signature"].as_str().unwrap_or("").to_string(),
          status: f["status"].as_str().unwrap_or("").to_string(),
          what: f["what"].as_str().unwrap_or("").to_string(),
        })
        .collect()
    })
    .unwrap_or_default()
}

// ---------------------------------------------------------------- report

pub struct Report {
  pub id: String,
  pub tier: Tier,
  pub seed: u64,
  pub level: &'static str,
  pub rule: String,
  pub assumptions: Vec<String>,
  pub start: Instant,
  /// (counter or set key, minimum) – missing a floor makes the run inconclusive
  pub floors: Vec<(String, u64)>,
  pub min_nontrivial: u64,
  pub extra: BTreeMap<String, Value>,
  /// evidence file is <id><suffix>.json (sanitizer slices use a suffix)
  pub evidence_suffix: String,
}

impl Report {
  pub fn new(id: &str, tier: Tier, seed: u64) -> Self {
    if let Ok(mut g) = WATCH_CTX.lock() {
      *g = Some((id.to_string(), tier.name().to_string(), seed));
    }
    if matches!(id, "C03" | "C14" | "C16") {
      // "terminates" is part of these statements
      stuck_case_is_violation();
    }
    Report {
      id: id.to_string(),
      tier,
      seed,
      level: "exploration",
      rule: String::new(),
      assumptions: vec![],
      start: Instant::now(),
      floors: vec![],
      min_nontrivial: 2,
      extra: BTreeMap::new(),
      // secondary stages of a check (release profile, ASan build, replay)
      // keep their evidence apart from the main run's
      evidence_suffix: std::env::var("DGV_EVIDENCE_SUFFIX").unwrap_or_default(),
    }
  }

  pub fn floor(&mut self, key: &str, min: u64) {
    self.floors.push((key.to_string(), min));
  }

  /// Writes the evidence file, prints verdict lines, returns the exit code.
  pub fn finish(self, acc: Acc) -> i32 {
    let known = load_known_findings();
    let mut unknown = Vec::new();
    let mut known_hit: BTreeMap<String, (String, u64)> = BTreeMap::new();
    let mut sig_seen = BTreeSet::new();
    for v in &acc.violations {
      let k = known.iter().find(|k| {
        k.property == self.id && k.status == "known" && k.signature == v.signature
      });
      match k {
        Some(k) => {
          let n = acc
            .counters
            .get(&format!("viol:{}", v.signature))
            .copied()
            .unwrap_or(1);
          known_hit
            .entry(v.signature.clone())
            .or_insert((k.what.clone(), n));
        }
        None => {
          if sig_seen.insert(v.signature.clone()) {
            unknown.push(v.clone());
          }
        }
      }
    }
    let wall = self.start.elapsed().as_secs_f64();
    let mut inconclusive = acc.inconclusive.clone();
    let distinct = acc.nontrivial.len() as u64;
    if distinct < self.min_nontrivial {
      inconclusive.push(format!(
        "coverage floor: distinct_nontrivial {} < {}",
        distinct, self.min_nontrivial
      ));
    }
    for (k, min) in &self.floors {
      let got = acc
        .counters
        .get(k)
        .copied()
        .or_else(|| acc.sets.get(k).map(|s| s.len() as u64))
        .unwrap_or(0);
      if got < *min {
        inconclusive.push(format!("coverage floor: {} = {} < {}", k, got, min));
      }
    }

    let mut coverage = serde_json::Map::new();
    coverage.insert("evaluations".into(), json!(acc.evaluations.max(1)));
    coverage.insert("distinct_nontrivial".into(), json!(distinct));
    coverage.insert("rule".into(), json!(self.rule));
    coverage.insert(
      "samples".into(),
      Value::Array(if acc.samples.is_empty() {
        vec![json!("(no sample recorded)")]
      } else {
        acc.samples.clone()
      }),
    );
    let counters: serde_json::Map<String, Value> = acc
      .counters
      .iter()
      .map(|(k, v)| (k.clone(), json!(v)))
      .collect();
    coverage.insert("counters".into(), Value::Object(counters));
    let sets: serde_json::Map<String, Value> = acc
      .sets
      .iter()
      .map(|(k, v)| {
        (
          k.clone(),
          json!({"distinct": v.len(), "first": v.iter().take(40).collect::<Vec<_>>()}),
        )
      })
      .collect();
    coverage.insert("observed_sets".into(), Value::Object(sets));
    coverage.insert(
      "known_findings_hit".into(),
      json!(
        known_hit
          .iter()
          .map(|(s, (w, n))| json!({"signature": s, "what": w, "occurrences": n}))
          .collect::<Vec<_>>()
      ),
    );
    coverage.insert("inconclusive".into(), json!(inconclusive));
    for (k, v) in &self.extra {
      coverage.insert(k.clone(), v.clone());
    }
    if self.evidence_suffix.is_empty()
      && let Ok(p) = std::env::var("DGV_SANITIZER_SUMMARY")
      && let Ok(t) = std::fs::read_to_string(&p)
      && let Ok(v) = serde_json::from_str::<Value>(&t)
    {
      coverage.insert("sanitizer_runs".into(), v);
    }
    let verdict = if !unknown.is_empty() {
      "violated"
    } else if !inconclusive.is_empty() {
      "inconclusive"
    } else {
      "held on what was observed"
    };
    coverage.insert("verdict".into(), json!(verdict));

    let evidence = json!({
      "property_id": self.id,
      "tier": self.tier.name(),
      "seed": self.seed,
      "level": self.level,
      "coverage": Value::Object(coverage),
      "assumptions": self.assumptions,
      "wall_s": wall,
      "violations": unknown.len(),
    });
    let dir = format!("{}/evidence", verif_dir());
    std::fs::create_dir_all(&dir).ok();
    let path = format!("{}/{}{}.json", dir, self.id, self.evidence_suffix);
    std::fs::write(&path, serde_json::to_string_pretty(&evidence).unwrap())
      .expect("write evidence");

    for (sig, (what, n)) in &known_hit {
      println!(
        "KNOWN-FINDING: property={} signature={} occurrences={} {}",
        self.id, sig, n, what
      );
    }
    println!(
      "[{}] tier={} seed={} evaluations={} distinct_nontrivial={} wall={:.1}s verdict={}",
      self.id,
      self.tier.name(),
      self.seed,
      acc.evaluations,
      distinct,
      wall,
      verdict
    );
    if !unknown.is_empty() {
      let rdir = format!("{}/replays", verif_dir());
      std::fs::create_dir_all(&rdir).ok();
      for v in &unknown {
        let h = hash_str(&format!("{}{}", v.signature, v.witness));
        let rpath = format!("{}/{}-{:016x}.json", rdir, self.id, h);
        let body = json!({
          "property": self.id,
          "signature": v.signature,
          "what": v.what,
          "seed": self.seed,
          "tier": self.tier.name(),
          "witness": v.witness,
        });
        std::fs::write(&rpath, serde_json::to_string_pretty(&body).unwrap())
          .ok();
        println!("  signature: {}", v.signature);
        println!("  what: {}", v.what);
        println!("VIOLATION property={} replay={}", self.id, rpath);
      }
      return 1;
    }
    if !inconclusive.is_empty() {
      for i in inconclusive.iter().take(20) {
        println!("INCONCLUSIVE property={} {}", self.id, i);
      }
      return 2;
    }
    0
  }
}
