// C12: fast check is all-or-nothing per package, cache-transparent over
// histories, and deterministic.
//
// A world is 1-3 generated packages (pkg.rs) with cross-package links and a
// main module importing some of their entrypoints. A history edits the
// package model (body-only edits, signature edits, spoiling / un-spoiling a
// public declaration, export toggles, link changes, which entrypoints main
// imports), and after every step the real build + fast check is run
//   (1) without a cache,
//   (2) with a RecordingCache shared by the whole history (cold, warm and
//       stale entries all occur and are counted), also once pre-poisoned,
//   (3) without a cache again in a fresh thread (hasher variation).
// The monitor compares the per-module results.
use crate::common::*;
use crate::fc::*;
use crate::fcmon::*;
use crate::pkg::*;
use crate::world::*;
use deno_graph::ModuleGraph;
use deno_graph::fast_check::FastCheckCache;
use deno_graph::fast_check::FastCheckCacheItem;
use deno_graph::fast_check::FastCheckCacheKey;
use deno_graph::fast_check::FastCheckCacheModuleItem;
use serde_json::Value;
use serde_json::json;
use std::cell::RefCell;
use std::collections::BTreeMap;
use std::collections::BTreeSet;

#[derive(Default)]
pub struct RecordingCache {
  pub items: RefCell<BTreeMap<FastCheckCacheKey, FastCheckCacheItem>>,
  /// (key, "hit"/"miss"/"set")
  pub log: RefCell<Vec<(u64, &'static str)>>,
}

impl FastCheckCache for RecordingCache {
  fn get(&self, key: FastCheckCacheKey) -> Option<FastCheckCacheItem> {
    let r = self.items.borrow().get(&key).cloned();
    self.log.borrow_mut().push((key.as_u64(), if r.is_some() { "hit" } else { "miss" }));
    r
  }
  fn set(&self, key: FastCheckCacheKey, value: FastCheckCacheItem) {
    self.log.borrow_mut().push((key.as_u64(), "set"));
    self.items.borrow_mut().insert(key, value);
  }
}

#[derive(Clone, Debug, PartialEq, Eq)]
pub struct ModSnap {
  /// (text, source map, recorded dependencies as JSON)
  pub output: Option<(String, String, String)>,
  pub diagnostics: Option<Vec<String>>,
}

pub type Snap = BTreeMap<String, ModSnap>;

pub fn snapshot(g: &ModuleGraph) -> Snap {
  let mut out = Snap::new();
  for m in g.modules() {
    if let Some(js) = m.js() {
      let output = js.fast_check_module().map(|fc| {
        (
          fc.source.to_string(),
          fc.source_map.to_string(),
          serde_json::to_string(&fc.dependencies).unwrap_or_default(),
        )
      });
      let diagnostics = js.fast_check_diagnostics().map(|d| d.iter().map(|x| x.to_string()).collect());
      if output.is_some() || diagnostics.is_some() {
        out.insert(js.specifier.to_string(), ModSnap { output, diagnostics });
      }
    }
  }
  out
}

#[derive(Clone, Debug, Hash)]
pub struct MultiWorld {
  pub pkgs: Vec<Pkg>,
  /// (package index, export key) imported by main.ts
  pub main_imports: Vec<(usize, String)>,
}

impl MultiWorld {
  pub fn world(&self) -> World {
    let mut w = World::new();
    pkg_to_world(&self.pkgs, &mut w);
    let mut s = String::new();
    for (pi, k) in &self.main_imports {
      s.push_str(&format!("import \"jsr:{}@1{}\";\n", self.pkgs[*pi].name, k.trim_start_matches('.')));
    }
    w.add_text("file:///main.ts", &s);
    w
  }
  pub fn json(&self) -> Value {
    json!({"packages": self.pkgs.iter().map(pkg_json).collect::<Vec<_>>(), "main_imports": self.main_imports})
  }
}

fn add_link(rng: &mut Rng, mw: &mut MultiWorld, from: usize, to: usize) -> bool {
  // link a public file of `from` to an export of an entrypoint of `to`
  let target = &mw.pkgs[to];
  let (key, entry_file) = rng.pick(&target.exports).clone();
  let names: Vec<String> = export_names(target, entry_file).into_iter().filter(|n| n != "default").collect();
  let spec = format!("jsr:{}@1{}", target.name, key.trim_start_matches('.'));
  let files: Vec<usize> = public_files(&mw.pkgs[from]).into_iter().collect();
  if files.is_empty() {
    return false;
  }
  let f = *rng.pick(&files);
  let n_lines = mw.pkgs[from].extra.get(&f).map(|v| v.len()).unwrap_or(0);
  let line = match rng.below(4) {
    0 => format!("export * from \"{}\";", spec),
    1 if !names.is_empty() => {
      let n = rng.pick(&names);
      format!("export {{ {} as {}_l{} }} from \"{}\";", n, n, n_lines, spec)
    }
    2 if !names.is_empty() => {
      let n = rng.pick(&names);
      format!("export type L{}_{} = typeof import(\"{}\").{};", n_lines, f, spec, n)
    }
    _ => format!("export * as lnk{}_{} from \"{}\";", n_lines, f, spec),
  };
  mw.pkgs[from].extra.entry(f).or_default().push(line);
  true
}

pub fn gen_multi(rng: &mut Rng) -> MultiWorld {
  let n_pkgs = rng.range(1, 3);
  let mut pkgs = vec![];
  for i in 0..n_pkgs {
    let name = format!("@s/p{}", (b'a' + i as u8) as char);
    let n_files = rng.range(1, 4);
    let dirty = rng.chance(1, 4);
    pkgs.push(gen_pkg(rng, &name, n_files, dirty));
  }
  let mut mw = MultiWorld { pkgs, main_imports: vec![] };
  for i in 0..n_pkgs {
    for j in i + 1..n_pkgs {
      if rng.chance(2, 3) {
        // either direction (never both: no dependency cycles between packages); the package that is linked
        // to may sort before or after the one that links to it
        if rng.coin() {
          add_link(rng, &mut mw, i, j);
        } else {
          add_link(rng, &mut mw, j, i);
        }
      }
    }
  }
  // main imports every entrypoint of the first package and some of the others
  for i in 0..n_pkgs {
    for (k, _) in mw.pkgs[i].exports.clone() {
      if i == 0 || rng.coin() {
        mw.main_imports.push((i, k));
      }
    }
  }
  mw
}

#[derive(Clone, Debug)]
pub enum Edit {
  Body,
  Signature,
  Spoil,
  Unspoil,
  ToggleExport,
  AddLink,
  RemoveLink,
  PrivatiseLink,
  MainImports,
  Nothing,
}

pub fn apply_edit(rng: &mut Rng, mw: &mut MultiWorld) -> Edit {
  let pi = rng.below(mw.pkgs.len());
  let kind = rng.below(12);
  let decls: Vec<(usize, usize)> = mw.pkgs[pi]
    .files
    .iter()
    .enumerate()
    .flat_map(|(f, pf)| (0..pf.decls.len()).map(move |d| (f, d)))
    .collect();
  match kind {
    0 | 1 => {
      // implementation-only edit of a declaration of a public file
      let pf = public_files(&mw.pkgs[pi]);
      let c: Vec<(usize, usize)> = decls.iter().cloned().filter(|(f, _)| pf.contains(f)).collect();
      if let Some((f, d)) = c.get(rng.below(c.len().max(1))) {
        mw.pkgs[pi].files[*f].decls[*d].salt = 1 + rng.below(1000) as u32;
      }
      Edit::Body
    }
    2 => {
      if let Some((f, d)) = decls.get(rng.below(decls.len().max(1))) {
        mw.pkgs[pi].files[*f].decls[*d].variant = rng.next() as u32;
      }
      Edit::Signature
    }
    3 | 4 => {
      let public = public_set(&mw.pkgs[pi]);
      let c: Vec<(usize, usize)> = public
        .into_iter()
        .filter(|(f, d)| matches!(mw.pkgs[pi].files[*f].decls[*d].kind, DK::Function | DK::ArrowConst | DK::TypedConst | DK::Class))
        .collect();
      if let Some((f, d)) = c.get(rng.below(c.len().max(1))) {
        let k = mw.pkgs[pi].files[*f].decls[*d].kind;
        mw.pkgs[pi].files[*f].decls[*d].dirty = Some(match k {
          DK::Function | DK::ArrowConst => Dirty::MissingReturnType,
          DK::TypedConst => Dirty::UntypedConstCall,
          _ => Dirty::UntypedClassProp,
        });
      }
      Edit::Spoil
    }
    5 | 6 => {
      for p in mw.pkgs.iter_mut() {
        for f in p.files.iter_mut() {
          for d in f.decls.iter_mut() {
            d.dirty = None;
          }
        }
      }
      Edit::Unspoil
    }
    7 => {
      if let Some((f, d)) = decls.get(rng.below(decls.len().max(1))) {
        let dd = &mut mw.pkgs[pi].files[*f].decls[*d];
        if !dd.default_export {
          dd.exported = !dd.exported;
          // keep cross-file references importable
          if !dd.exported {
            let target = (*f, *d);
            for pf in mw.pkgs[pi].files.iter_mut() {
              for x in pf.decls.iter_mut() {
                x.sig_refs.retain(|r| *r != target || false);
                x.body_refs.retain(|r| *r != target);
              }
              pf.reexports.retain(|r| !matches!(r, ReExport::Named { .. }));
            }
          }
        }
      }
      Edit::ToggleExport
    }
    8 | 10 | 11 => {
      if mw.pkgs.len() > 1 {
        let from = rng.below(mw.pkgs.len() - 1);
        let to = rng.range(from + 1, mw.pkgs.len() - 1);
        match rng.below(3) {
          0 => {
            // keep the direction an existing link between the two has, else pick one
            let links = |mw: &MultiWorld, a: usize, b: usize| {
              let needle = format!("jsr:{}@", mw.pkgs[b].name);
              mw.pkgs[a].extra.values().flatten().any(|l| l.contains(&needle))
            };
            let (a, b) = if links(mw, to, from) {
              (to, from)
            } else if links(mw, from, to) || rng.coin() {
              (from, to)
            } else {
              (to, from)
            };
            add_link(rng, mw, a, b);
            return Edit::AddLink;
          }
          1 => {
            let holder = if mw.pkgs[from].extra.is_empty() { to } else { from };
            mw.pkgs[holder].extra.clear();
            return Edit::RemoveLink;
          }
          _ => {
            // the dependency leaves the public API but stays in the graph
            let holder = if mw.pkgs[from].extra.is_empty() { to } else { from };
            for lines in mw.pkgs[holder].extra.values_mut() {
              for l in lines.iter_mut() {
                if let Some(a) = l.find("\"jsr:")
                  && let Some(b) = l[a + 1..].find('"')
                {
                  *l = format!("import {};", &l[a..a + b + 2]);
                }
              }
            }
            return Edit::PrivatiseLink;
          }
        }
      }
      Edit::Nothing
    }
    _ => {
      // change which entrypoints main imports (never empty)
      let mut all = vec![];
      for (i, p) in mw.pkgs.iter().enumerate() {
        for (k, _) in &p.exports {
          all.push((i, k.clone()));
        }
      }
      let mut chosen: Vec<(usize, String)> = all.iter().cloned().filter(|_| rng.coin()).collect();
      if chosen.is_empty() {
        chosen.push(all[0].clone());
      }
      mw.main_imports = chosen;
      Edit::MainImports
    }
  }
}

/// specifiers the emitted text declares (imports, re-exports, import types)
fn declared_specifiers(spec: &str, text: &str, media: deno_graph::MediaType) -> Option<BTreeSet<String>> {
  use deno_ast::swc::ast::TsImportType;
  use deno_ast::swc::ecma_visit::Visit;
  use deno_ast::swc::ecma_visit::VisitWith;
  let p = parse_ts(&url(spec), text, media, false).ok()?;
  let top = module_top(&p);
  let mut out: BTreeSet<String> = BTreeSet::new();
  out.extend(top.imports.iter().map(|(s, _)| s.clone()));
  out.extend(top.named_reexports.iter().map(|(s, _, _)| s.clone()));
  out.extend(top.star_reexports.iter().cloned());
  struct V(BTreeSet<String>);
  impl Visit for V {
    fn visit_ts_import_type(&mut self, n: &TsImportType) {
      self.0.insert(n.arg.value.to_string_lossy().to_string());
      n.visit_children_with(self);
    }
  }
  let mut v = V(BTreeSet::new());
  match p.program_ref() {
    deno_ast::ProgramRef::Module(m) => m.visit_with(&mut v),
    deno_ast::ProgramRef::Script(s) => s.visit_with(&mut v),
  }
  out.extend(v.0);
  Some(out)
}

/// (a): per package all-or-nothing, and recorded dependencies == declared
fn check_all_or_nothing(acc: &mut Acc, mw: &MultiWorld, g: &ModuleGraph, snap: &Snap, mode: &str, ctx: &Value) {
  for p in &mw.pkgs {
    // the entrypoints of a package are the exports the graph uses
    let nv = deno_semver::package::PackageNv::from_str(&format!("{}@{}", p.name, p.version)).unwrap();
    let used: BTreeSet<String> = g.packages.package_exports(&nv).map(|e| e.keys().cloned().collect()).unwrap_or_default();
    let mut p = p.clone();
    p.exports.retain(|(k, _)| used.contains(k));
    let p = &p;
    let prefix = format!("https://jsr.io/{}/{}/", p.name, p.version);
    let in_graph = |f: usize| g.get(&url(&file_url(p, f))).is_some();
    let slots: Vec<(&String, &ModSnap)> = snap.iter().filter(|(s, _)| s.starts_with(&prefix)).collect();
    if slots.is_empty() {
      // the package was not analysed (not reached from main or from the public
      // API of an analysed package)
      acc.count("packages_not_analysed");
      let top_level = mw.main_imports.iter().any(|(pi, _)| mw.pkgs[*pi].name == p.name);
      if top_level {
        acc.violation(
          format!("all-or-nothing/top-level-package-not-analysed/{}", mode),
          format!("{} is imported by main.ts but no module of it has a fast-check slot", p.name),
          ctx.clone(),
        );
      }
      continue;
    }
    acc.count("packages_analysed");
    let any_output = slots.iter().any(|(_, m)| m.output.is_some());
    // entrypoints: the package's exports that are modules of the graph
    let entry_urls: Vec<String> = p.exports.iter().filter(|(_, f)| in_graph(*f)).map(|(_, f)| file_url(p, *f)).collect();
    if any_output {
      acc.count(&format!("packages_with_output/{}", mode));
      for e in &entry_urls {
        if snap.get(e).is_some_and(|m| m.diagnostics.is_some()) {
          acc.violation(
            format!("all-or-nothing/output-and-entrypoint-diagnostics/{}", mode),
            format!("{}: modules of the package have output but entrypoint {} carries diagnostics", p.name, e),
            ctx.clone(),
          );
        }
      }
      for (s, m) in &slots {
        if m.diagnostics.is_some() {
          acc.violation(
            format!("all-or-nothing/output-and-module-diagnostics/{}", mode),
            format!("{}: modules of the package have output but {} carries diagnostics", p.name, s),
            ctx.clone(),
          );
        }
      }
      let any_dirty = p.files.iter().any(|f| f.decls.iter().any(|d| d.dirty.is_some()));
      if !any_dirty {
        for f in public_files(p) {
          if in_graph(f) && !snap.get(&file_url(p, f)).is_some_and(|m| m.output.is_some()) {
            acc.violation(
              format!("all-or-nothing/public-module-without-output/{}", mode),
              format!("{}: {} is part of the public API, other modules have output, this one has none", p.name, file_url(p, f)),
              ctx.clone(),
            );
          }
        }
      }
    } else {
      acc.count(&format!("packages_with_diagnostics/{}", mode));
      for e in &entry_urls {
        if !snap.get(e).is_some_and(|m| m.diagnostics.as_ref().is_some_and(|d| !d.is_empty())) {
          acc.violation(
            format!("all-or-nothing/entrypoint-without-diagnostics/{}", mode),
            format!("{}: no module has output but entrypoint {} carries no diagnostics", p.name, e),
            ctx.clone(),
          );
        }
      }
    }
  }
  // recorded dependencies are exactly the declared ones
  for (s, m) in snap {
    if let Some((text, _, _)) = &m.output {
      let js = g.get(&url(s)).and_then(|m| m.js()).unwrap();
      let recorded: BTreeSet<String> = js.fast_check_module().unwrap().dependencies.keys().cloned().collect();
      if let Some(declared) = declared_specifiers(s, text, js.media_type) {
        acc.count("modules_dependencies_compared");
        acc.count_n("dependencies_compared", declared.len() as u64);
        if recorded != declared {
          acc.violation(
            format!("recorded-dependencies-differ-from-declared/{}", mode),
            format!("{}: recorded {:?}, emitted text declares {:?}", s, recorded, declared),
            json!({"ctx": ctx, "emitted": text}),
          );
        }
      }
    }
  }
}

fn diff_outputs(a: &Snap, b: &Snap) -> Option<(String, String)> {
  let ka: BTreeSet<&String> = a.iter().filter(|(_, m)| m.output.is_some()).map(|(k, _)| k).collect();
  let kb: BTreeSet<&String> = b.iter().filter(|(_, m)| m.output.is_some()).map(|(k, _)| k).collect();
  if ka != kb {
    let only_a: Vec<_> = ka.difference(&kb).collect();
    let only_b: Vec<_> = kb.difference(&ka).collect();
    return Some(("set-of-modules-with-output".into(), format!("only in first: {:?}; only in second: {:?}", only_a, only_b)));
  }
  for k in ka {
    let (ta, sa, da) = a[k].output.as_ref().unwrap();
    let (tb, sb, db) = b[k].output.as_ref().unwrap();
    if ta != tb {
      return Some(("text".into(), k.clone()));
    }
    if sa != sb {
      return Some(("source-map".into(), k.clone()));
    }
    if da != db {
      return Some(("dependencies".into(), k.clone()));
    }
  }
  None
}

fn run_in_fresh_thread(world: &World) -> Result<Snap, PanicInfo> {
  std::thread::scope(|s| {
    std::thread::Builder::new()
      .stack_size(256 << 20)
      .spawn_scoped(s, || fast_check_world(world, None, false).map(|g| snapshot(&g)))
      .unwrap()
      .join()
      .unwrap_or_else(|_| Err(PanicInfo { message: "thread panicked".into(), file: String::new(), line: 0 }))
  })
}

fn history_case(i: usize, seed: u64, acc: &mut Acc) {
  let mut rng = Rng::new(seed).fork(i as u64 ^ 0xC12);
  let mut mw = gen_multi(&mut rng);
  let cache = RecordingCache::default();
  let poisoned = rng.chance(1, 6);
  let steps = rng.range(2, 5);
  let mut history: Vec<Value> = vec![];
  let mut modes_seen: BTreeSet<&'static str> = BTreeSet::new();
  for step in 0..steps {
    let edit = if step == 0 { Edit::Nothing } else { apply_edit(&mut rng, &mut mw) };
    history.push(json!({"step": step, "edit": format!("{:?}", edit), "world": mw.json()}));
    let ctx = json!({"history": history, "poisoned_cache": poisoned});
    let world = mw.world();
    acc.eval();
    acc.count(&format!("edit:{:?}", edit));
    // (1) no cache
    let g0 = match fast_check_world(&world, None, false) {
      Ok(g) => g,
      Err(p) => {
        acc.violation(format!("panic/{}", p.signature()), p.message.clone(), ctx);
        return;
      }
    };
    if g0.module_errors().next().is_some() {
      acc.count("generator_world_with_module_errors");
      acc.set_add("module_error_examples", g0.module_errors().next().unwrap().to_string().lines().next().unwrap_or("").to_string());
      return;
    }
    let s0 = snapshot(&g0);
    check_all_or_nothing(acc, &mw, &g0, &s0, "no-cache", &ctx);
    // (2) shared cache
    if poisoned && step == 0 {
      // entries under the right keys whose module info does not deserialize,
      // and entries whose hashes are of other sources
      let warm = RecordingCache::default();
      let _ = fast_check_world(&world, Some(&warm), false);
      for (k, mut item) in warm.items.into_inner() {
        for (_, m) in item.modules.iter_mut() {
          if let FastCheckCacheModuleItem::Info(info) = m {
            if rng.coin() {
              info.module_info = "{ not json".to_string();
            } else {
              info.source_hash ^= 0x55;
              info.text = "export const poisoned: number = 1;".into();
            }
          }
        }
        cache.items.borrow_mut().insert(k, item);
      }
      acc.count("poisoned_histories");
    }
    let log_start = cache.log.borrow().len();
    let g1 = match fast_check_world(&world, Some(&cache), false) {
      Ok(g) => g,
      Err(p) => {
        acc.violation(format!("panic/with-cache/{}", p.signature()), p.message.clone(), ctx);
        return;
      }
    };
    let s1 = snapshot(&g1);
    // classify the cache traffic of this step per key
    let log: Vec<(u64, &'static str)> = cache.log.borrow()[log_start..].to_vec();
    let mut per_key: BTreeMap<u64, Vec<&'static str>> = BTreeMap::new();
    for (k, e) in &log {
      per_key.entry(*k).or_default().push(e);
    }
    let mut mode_tags = BTreeSet::new();
    for evs in per_key.values() {
      let tag = match (evs.contains(&"hit"), evs.contains(&"miss"), evs.contains(&"set")) {
        (true, _, true) => "stale",
        (true, _, false) => "warm",
        (false, _, true) => "cold",
        _ => "miss-without-set",
      };
      acc.count(&format!("cache_entries:{}", tag));
      mode_tags.insert(tag);
      modes_seen.insert(tag);
    }
    let mode = if mode_tags.contains("stale") {
      "stale-cache"
    } else if mode_tags.contains("warm") && mode_tags.contains("cold") {
      "mixed-cache"
    } else if mode_tags.contains("warm") {
      "warm-cache"
    } else {
      "cold-cache"
    };
    let any_failure_entry_warm = per_key.iter().any(|(k, evs)| {
      evs.contains(&"hit")
        && !evs.contains(&"set")
        && cache
          .items
          .borrow()
          .iter()
          .any(|(kk, it)| kk.as_u64() == *k && it.modules.iter().any(|(_, m)| matches!(m, FastCheckCacheModuleItem::Diagnostic(_))))
    });
    if any_failure_entry_warm {
      acc.count("steps_with_warm_failure_entry");
    }
    let mut first_sig: Option<String> = None;
    if let Some((what, detail)) = diff_outputs(&s0, &s1) {
      // a package that is only analysed because a failing package refers to
      // it, while that package's failure entry stayed warm
      let top: BTreeSet<String> = mw.main_imports.iter().map(|(pi, _)| format!("https://jsr.io/{}/", mw.pkgs[*pi].name)).collect();
      let differing: Vec<&String> = s0
        .iter()
        .filter(|(k, m)| m.output.is_some() != s1.get(*k).is_some_and(|x| x.output.is_some()))
        .map(|(k, _)| k)
        .chain(s1.iter().filter(|(k, m)| m.output.is_some() && !s0.contains_key(*k)).map(|(k, _)| k))
        .collect();
      let only_dependency_packages = what == "set-of-modules-with-output"
        && !differing.is_empty()
        && differing.iter().all(|k| !top.iter().any(|t| k.starts_with(t.as_str())));
      let sig = if any_failure_entry_warm && only_dependency_packages {
        "cache-changes-output/warm-failure-entry/dependency-package-analysis-differs".to_string()
      } else {
        format!("cache-changes-output/{}/{}", mode, what)
      };
      first_sig = Some(sig.clone());
      acc.violation(
        sig,
        format!("step {}: {} (first = without cache, second = with cache)", step, detail),
        ctx.clone(),
      );
    } else {
      acc.count(&format!("steps_compared/{}", mode));
    }
    check_all_or_nothing(
      acc,
      &mw,
      &g1,
      &s1,
      if any_failure_entry_warm { "warm-failure-entry" } else { mode },
      &ctx,
    );
    // (2b) the same world again with the now warm cache
    if rng.chance(1, 2) {
      let g2 = fast_check_world(&world, Some(&cache), false);
      if let Ok(g2) = g2 {
        let s2 = snapshot(&g2);
        if let Some((what, detail)) = diff_outputs(&s0, &s2) {
          acc.violation(
            if diff_outputs(&s1, &s2).is_none() && first_sig.is_some() {
              // the same difference as the first cached run of this step
              first_sig.clone().unwrap()
            } else {
              format!("cache-changes-output/warm-repeat/{}", what)
            },
            format!("step {}: {}", step, detail),
            ctx.clone(),
          );
        } else {
          acc.count("steps_compared/warm-repeat");
        }
      }
    }
    // (3) determinism
    match run_in_fresh_thread(&world) {
      Ok(s3) => {
        if s3 != s0 {
          let what = diff_outputs(&s0, &s3).map(|(w, _)| w).unwrap_or("diagnostics".into());
          acc.violation(
            format!("repeated-run-differs/{}", what),
            format!("step {}: a second cache-less run in a fresh thread gave different results", step),
            ctx.clone(),
          );
        } else {
          acc.count("determinism_repeats_identical");
        }
      }
      Err(p) => acc.violation(format!("panic/{}", p.signature()), p.message, ctx.clone()),
    }
    if s0.values().any(|m| m.output.is_some()) && s0.values().any(|m| m.diagnostics.is_some()) {
      acc.count("steps_with_both_clean_and_failing_packages");
    }
  }
  if modes_seen.contains("warm") || modes_seen.contains("stale") {
    acc.nontrivial(hash64(&mw));
  }
  if i < 2 {
    acc.sample(json!({"history": history.iter().map(|h| json!({"step": h["step"], "edit": h["edit"]})).collect::<Vec<_>>(), "final_world": mw.json()}));
  }
}

fn corpus_cases(acc: &mut Acc) {
  // the spec corpus: cache-less vs cold vs warm
  for sw in crate::fcprops::load_fast_check_specs() {
    acc.eval();
    let ctx = json!({"spec": sw.name});
    let Ok(g0) = crate::fcprops::fast_check_spec(&sw, None) else { continue };
    let s0 = snapshot(&g0);
    let cache = RecordingCache::default();
    for round in ["cold", "warm"] {
      match crate::fcprops::fast_check_spec(&sw, Some(&cache)) {
        Err(p) => acc.violation(format!("panic/with-cache/{}", p.signature()), format!("{}: {}", sw.name, p.message), ctx.clone()),
        Ok(g1) => {
          let s1 = snapshot(&g1);
          if let Some((what, detail)) = diff_outputs(&s0, &s1) {
            acc.violation(format!("cache-changes-output/corpus-{}/{}", round, what), format!("{}: {}", sw.name, detail), ctx.clone());
          } else {
            acc.count(&format!("corpus_steps_compared/{}", round));
          }
        }
      }
    }
  }
}

pub fn run(tier: Tier, seed: u64) -> i32 {
  let mut rep = Report::new("C12", tier, seed);
  rep.rule = "worlds of 1-3 generated packages (pkg.rs generator, a quarter of the packages spoiled) with cross-package links (`export *`, named and namespace re-exports, `typeof import(..)`) and a main module importing some entrypoints; histories of 2-5 steps edit the model (implementation-only edits, signature edits, spoil / un-spoil, export toggles, link changes, which entrypoints main imports). After every step the real build + build_fast_check_type_graph runs without a cache, with a RecordingCache shared by the history (cold / warm / stale entries classified from the get/set log; one history in six starts from a poisoned cache: undeserialisable module info, wrong hashes with foreign text), once more on the warm cache, and cache-less in a fresh thread. Checked: (a) per analysed package either some module has output, then no module of it carries diagnostics and (clean packages) every public-API file of the generator's model has output, or none has output and every entrypoint in the graph carries diagnostics; every top-level package is analysed; the recorded dependencies of an emitted module equal the specifiers its text declares (independent scan incl. import types); (b) the set of modules with output, their text, source map and dependency JSON are identical with and without cache; (c) the fresh-thread repeat is identical including diagnostics. Plus cache-less / cold / warm on every fast-check spec. non-trivial = history in which a warm or stale entry occurred; distinct by final world".into();
  rep.assumptions = vec!["diagnostic texts are not compared between cached and cache-less runs (a warm failure entry yields `Cached` placeholders by design); only which modules carry them".into()];
  rep.floor("cache_entries:cold", tier.pick(300, 5000));
  rep.floor("cache_entries:warm", tier.pick(300, 5000));
  rep.floor("cache_entries:stale", tier.pick(100, 2000));
  rep.floor("steps_with_warm_failure_entry", tier.pick(30, 500));
  rep.floor("dependencies_compared", tier.pick(1000, 20000));
  rep.floor("determinism_repeats_identical", tier.pick(500, 10000));
  rep.min_nontrivial = tier.pick(200, 5000);
  let n = tier.pick(1800, 60000);
  let mut acc = par_run(n, |i, acc| history_case(i, seed, acc));
  corpus_cases(&mut acc);
  rep.finish(acc)
}
